"""loop engine: the REAL per-device loop (do_remapping_loop_one_device, through
the remapping_loop::verif hook) is driven by a scripted driver that simulates
the environment of coq/theories/LoopEnv.v; the recorded transcripts are
(1) judged by the extracted checkers of coq/theories/LoopMonitors.v and the
device-level monitor of coq/theories/LoopDevice.v (clauses C01/C02/C19.device) and
(2) compared with the extracted Loop.run on the same answers
(see harness/src/engines/loop_script.rs and ocaml/loop_check.ml)."""
import os, json, re, time, glob, shutil

NEEDS_MODEL = True
NEEDS_HARNESS = True


def parse_out(text, engine):
    diffs, hits, cases, summary, samples = [], [], {}, {}, []
    for line in text.split("\n"):
        if line.startswith("CASEDEF "):
            m = re.match(r"CASEDEF case=(\S+) tag=(\S*) layout=(.*?) script=(.*)$", line)
            if m:
                cases[m.group(1)] = {"tag": m.group(2), "layout": m.group(3), "script": m.group(4)}
        elif line.startswith("DIFF "):
            m = re.match(r"DIFF case=(\S+) class=(\w+) at=(-?\d+) impl=(.*?) model=(.*)$", line)
            if m:
                c = cases.get(m.group(1), {})
                diffs.append({"engine": engine, "class": m.group(2),
                              "input": {"layout": c.get("layout"), "tag": c.get("tag"), "case": m.group(1),
                                        "script": c.get("script"), "at": int(m.group(3))},
                              "impl": m.group(4), "model": m.group(5)})
        elif line.startswith("MONITOR "):
            m = re.match(r"MONITOR case=(\S+) clause=(\S+) index=(\d+) observed=(.*)$", line)
            if m:
                c = cases.get(m.group(1), {})
                idx = int(m.group(3))
                toks = (c.get("script") or "").split(" ")
                clause = m.group(2)
                # a clause about the return value needs the whole script; the others only the prefix up to the entry
                cut = toks if m.group(4).startswith("returned:") else toks[:idx + 1]
                hits.append({"engine": engine, "clause": clause, "known_class": None,
                             "input": {"layout": c.get("layout"), "tag": c.get("tag"), "case": m.group(1),
                                       "script": " ".join(cut), "entry": idx},
                             "observed": m.group(4),
                             "expected": ("no clause of LoopDevice.device_check fires: the acknowledged sends leave on the virtual keyboard exactly the held set of the "
                                          "specification mapper for the inputs read, nothing when no key is physically held, and contain no redundant event (Properties/%s.v)" % clause.split(".")[0])
                                         if clause.endswith(".device") else
                                         "no clause of LoopMonitors.check_transcript / check_outcome fires (Properties/%s.v)" % clause.split(".")[0]})
        elif line.startswith("SUMMARY "):
            for k, v in re.findall(r"(\w+)=(\d+)", line):
                summary[k] = summary.get(k, 0) + int(v)
        elif line.startswith("SAMPLE "):
            samples.append(line[7:])
    return diffs, hits, summary, samples


def run(ctx):
    here, build, sh = ctx["here"], ctx["build"], ctx["sh"]
    tier, seed, budget = ctx["tier"], ctx["seed"], ctx.get("budget", "normal")
    key = ctx["tree_hash"]([os.path.join(ctx["repo"], "src"), os.path.join(ctx["repo"], "Cargo.toml"),
                            os.path.join(here, "harness", "src"), os.path.join(here, "ocaml", "loop_check.ml"),
                            os.path.join(here, "coq", "theories", "Base.v"), os.path.join(here, "coq", "theories", "Mapper.v"),
                            os.path.join(here, "coq", "theories", "Monitors.v"), os.path.join(here, "coq", "theories", "Loop.v"),
                            os.path.join(here, "coq", "theories", "LoopMonitors.v"), os.path.join(here, "coq", "theories", "LoopSpec.v"),
                            os.path.join(here, "coq", "theories", "Trace.v"), os.path.join(here, "coq", "theories", "LoopDevice.v"),
                            os.path.join(here, "coq", "gen"),
                            os.path.join(here, "coq", "extract", "Extract_loop.v"),
                            os.path.join(here, "tools", "engines", "loop.py")]) + "-%s-%d-%s" % (tier, seed, budget)
    cdir = os.path.join(build, "cache", key)
    cfile = os.path.join(cdir, "loop.json")
    with ctx["Lock"]("engine-loop"):
        if os.path.exists(cfile):
            r = json.load(open(cfile))
            r["cache_hit"] = True
            return r
        t0 = time.time()
        work = os.path.join(build, "work", "loop-%s" % key)
        shutil.rmtree(work, ignore_errors=True)
        os.makedirs(work)
        extra = ""
        if budget == "search":
            extra = " --scale 4"
            seed = seed + 7919
        cmd = "%s loop --out %s --seed %d --tier %s%s" % (ctx["harness"], work, seed, tier, extra)
        rc, out, _ = sh(cmd, timeout=3000)
        res = {"engine": "loop", "ok": False, "error": None, "diffs": [], "hits": [], "stats": {}, "cache_hit": False}
        if rc != 0:
            res["error"] = "harness loop failed (rc=%d): %s" % (rc, out[-500:])
            return res
        gen_line = out.strip().split("\n")[-1]
        rc, out2, _ = sh("ls %s/*.tr | xargs -P16 -I{} sh -c '%s {} > {}.out 2>&1 || echo CHECKER-FAILED {} >> {}.out'" % (
            work, ctx["model_exe"]), timeout=3000)
        text = ""
        for f in sorted(glob.glob(os.path.join(work, "*.out"))):
            text += open(f, encoding="utf-8", errors="replace").read()
        if "CHECKER-FAILED" in text or "CHECKER-EXCEPTION" in text or "SUMMARY" not in text:
            m = re.search(r"(CHECKER-\w+.*)", text)
            res["error"] = "model-side checker failed: " + (m.group(1)[:400] if m else text[-400:])
            shutil.rmtree(work, ignore_errors=True)
            return res
        diffs, hits, summary, samples = parse_out(text, "loop")
        res.update({"ok": True, "diffs": diffs[:200], "hits": hits[:200]})
        res["stats"] = {
            "programs": summary.get("cases", 0),
            "evaluations": summary.get("cases", 0),
            "distinct_nontrivial": summary.get("distinct_nontrivial", 0),
            "traces_validated_against_impl": summary.get("cases", 0),
            "driver_calls_compared": summary.get("calls", 0),
            "model_steps": summary.get("model_steps", 0),
            "fault_injection_runs": summary.get("fault_runs", 0),
            "sends_observed": summary.get("sends", 0),
            "timer_ticks": summary.get("ticks", 0),
            "late_timer_ticks": summary.get("late_ticks", 0),
            "tablet_events": summary.get("tablet_events", 0),
            "key_events_read": summary.get("key_reads", 0),
            "disagreements_checked": len(diffs),
            "generator": gen_line,
            "input_distribution": {"runs": summary.get("cases", 0), "fault_runs": summary.get("fault_runs", 0),
                                   "driver_calls": summary.get("calls", 0), "key_events_read": summary.get("key_reads", 0),
                                   "tablet_events": summary.get("tablet_events", 0), "timer_ticks": summary.get("ticks", 0),
                                   "late_timer_ticks": summary.get("late_ticks", 0), "sends": summary.get("sends", 0)},
            "samples": samples[:4],
        }
        res["wall_s"] = round(time.time() - t0, 1)
        shutil.rmtree(work, ignore_errors=True)
        os.makedirs(cdir, exist_ok=True)
        json.dump(res, open(cfile, "w"))
        return res


def replay(ctx, rp):
    """run the real loop against the replay file's answer script, print its transcript and what the checkers say"""
    if str(rp.get("engine") or (rp.get("first_difference") or {}).get("engine") or "").startswith("realloop"):
        from engines import realloop   # second engine of this property; check.py hands every replay to the first
        return realloop.replay(ctx, rp)
    if str(rp.get("engine") or (rp.get("first_difference") or {}).get("engine") or "").startswith("wire"):
        from engines import wire   # second engine of C12 (the tablet-mode switch reader)
        return wire.replay(ctx, rp)
    inp = rp.get("input") or (rp.get("first_difference") or {}).get("input") or {}
    if inp.get("layout") is None or not inp.get("script"):
        print("replay names no concrete input (kind=%s): %s" % (rp.get("kind"), rp.get("broken")))
        return 0
    work = os.path.join(ctx["build"], "work", "loop-replay")
    os.makedirs(work, exist_ok=True)
    lf, sf, tf = os.path.join(work, "replay.layout"), os.path.join(work, "replay.script"), os.path.join(work, "replay.tr")
    open(lf, "w").write("\n".join(x.strip() for x in inp["layout"].split(";") if x.strip()) + "\n")
    open(sf, "w").write(inp["script"] + "\n")
    rc, out, _ = ctx["sh"]([ctx["harness"], "loop-replay", "--layout", lf, "--script", sf])
    open(tf, "w").write(out)
    print("layout: " + inp["layout"])
    print("answers: " + inp["script"])
    print("real loop (T enter_ns exit_ns call | answer):")
    print(out)
    fired = False
    if ctx.get("model_exe"):
        rc, out2, _ = ctx["sh"]([ctx["model_exe"], tf])
        for line in out2.split("\n"):
            if line.startswith(("MONITOR", "DIFF")):
                print(line)
                if rp.get("clause") and ("clause=%s " % rp.get("clause")) in line:
                    fired = True
    print("recorded: clause=%s observed=%s" % (rp.get("clause"), rp.get("observed")))
    if rp.get("clause"):
        print("reproduced: %s" % ("yes" if fired else "no"))
        return 1 if fired else 0
    return 0
