#!/usr/bin/env python3
"""_cli_ns.py JOB.json — worker of the cli engine.  MUST be started as
`unshare -m python3 _cli_ns.py JOB.json`: it refuses to do anything unless it is
in a mount namespace different from the one of the engine process that wrote the
job (and from pid 1's, where that can be read), makes every mount private first,
and then, inside that namespace only,

  * replaces /dev by a tmpfs (null, zero, urandom, random, tty, full bind-mounted
    from the old /dev) so that a plain FILE /dev/uinput can exist — the code under
    test only stat()s, chowns and chmods it — and so that no real input device
    is reachable,
  * puts a logging stub (exit 0) in the place of `systemctl` and `udevadm`
    (bind mount over the existing file, or a new file in an overlay / a tmpfs of
    symlinks over /usr/sbin when the program is not installed); everything else
    add_systemd_service runs (getent, groupadd, id, adduser/useradd, usermod,
    chown, chmod) is the real program,
  * per case: mounts a fresh tmpfs over /etc, filled with a copy of the real
    /etc, applies the case's preconditions, runs the real binary with the raw
    argv bytes (timeout 10 s), copies out what it wrote, unmounts.

  * per remap scenario (job["remap_cases"], spec files in the format of
    `tm-harness listing-gen`): fabricates /proc/bus/input/devices (a file bound
    over it), /sys/devices and /dev/input (tmpfs; every node a plain file) and
    runs the real binary in the three ways of naming devices: --all-keyboards,
    --dev-file <every node> --only-if-keyboard, --auto-all-keyboards (which never
    returns: killed with SIGKILL once its first round is printed, 3 s at most);
    raw outputs are written out, cli.py judges them.

Nothing outside the namespace is written except below the job's work directory."""
import sys, os, json, subprocess, shutil, stat, time, select

STUB_LOG = "/dev/.cli-stub.log"
STUB = "#!/bin/sh\necho \"$0 $*\" >> %s\nexit 0\n" % STUB_LOG
OUT_FILES = {
    "unit": "/etc/systemd/system/totalmapper@.service",
    "layout": "/etc/totalmapper.json",
    "rule_input": "/etc/udev/rules.d/79-input.rules",
    "rule_totalmapper": "/etc/udev/rules.d/80-totalmapper.rules",
}


def run(cmd, **kw):
    return subprocess.run(cmd, stdout=subprocess.PIPE, stderr=subprocess.STDOUT, **kw)


def ok(cmd):
    return run(cmd).returncode == 0


def fail(msg):
    print("NSFAIL " + msg)
    sys.exit(0)


def unhex(h):
    return bytes.fromhex(h).decode("utf-8", "surrogateescape")


def read_spec(path):
    sc = {"text": b"", "sys": [], "dev": [], "excl": []}
    for line in open(path, encoding="ascii", errors="replace"):
        t = line.rstrip("\n").split(" ")
        if t[0] == "TEXT" and len(t) > 1:
            sc["text"] = bytes.fromhex(t[1])
        elif t[0] == "SYS" and len(t) > 2:
            sc["sys"].append((unhex(t[1]), t[2], t[3] if len(t) > 3 else "", unhex(t[4]) if len(t) > 4 else ""))
        elif t[0] == "DEV" and len(t) > 2:
            sc["dev"].append((unhex(t[1]), t[2], unhex(t[3]) if len(t) > 3 else ""))
        elif t[0] == "EXC" and len(t) > 1:
            sc["excl"].append(bytes.fromhex(t[1]))
    return sc


def run_plain(binp, argv, cwd):
    try:
        p = subprocess.run([binp.encode()] + argv, cwd=cwd, stdin=subprocess.DEVNULL, stdout=subprocess.PIPE, stderr=subprocess.PIPE, timeout=10)
        return {"rc": p.returncode, "timeout": False, "stdout": p.stdout[:20000].decode("utf-8", "replace"), "stderr": p.stderr[:40000].decode("utf-8", "replace")}
    except subprocess.TimeoutExpired as ex:
        return {"rc": None, "timeout": True, "stdout": (ex.stdout or b"")[:20000].decode("utf-8", "replace"), "stderr": (ex.stderr or b"")[:40000].decode("utf-8", "replace")}


def run_auto(binp, argv, cwd, cap=3.0):
    """--auto-all-keyboards blocks in inotify for ever after its first round: read stderr until the round is printed
    (the 'Checking which devices are already running:' block went quiet), then SIGKILL; never longer than `cap` seconds"""
    so = open(os.path.join(cwd, "auto.stdout"), "wb")
    p = subprocess.Popen([binp.encode()] + argv, cwd=cwd, stdin=subprocess.DEVNULL, stdout=so, stderr=subprocess.PIPE)
    fd = p.stderr.fileno()
    os.set_blocking(fd, False)
    buf, t0, last, exited = b"", time.time(), time.time(), False
    while time.time() - t0 < cap:
        r, _, _ = select.select([fd], [], [], 0.05)
        if r:
            try:
                chunk = os.read(fd, 65536)
            except BlockingIOError:
                chunk = None
            if chunk == b"":
                exited = True
                break
            if chunk:
                buf += chunk
                last = time.time()
        elif b"Checking which devices are already running:" in buf and time.time() - last > 0.3:
            break
    rc = p.poll()
    p.kill()
    p.wait()
    so.close()
    return {"rc": rc, "exited_by_itself": exited or rc is not None, "seconds": round(time.time() - t0, 2),
            "stdout": open(os.path.join(cwd, "auto.stdout"), "rb").read()[:20000].decode("utf-8", "replace"), "stderr": buf[:40000].decode("utf-8", "replace")}


def remap_case(job, case, work):
    cdir = os.path.join(work, "out", case["id"])
    os.makedirs(cdir, exist_ok=True)
    res = {"id": case["id"], "setup_error": None}
    sc = read_spec(case["spec"])
    mounted = []
    try:
        for mp in ("/sys/devices", "/dev/input"):
            if not ok(["mount", "-t", "tmpfs", "tmpfs", mp]):
                raise RuntimeError("tmpfs on " + mp)
            mounted.append(mp)
        devices = os.path.join(cdir, "devices")
        open(devices, "wb").write(sc["text"])
        if not ok(["mount", "--bind", devices, "/proc/bus/input/devices"]):
            raise RuntimeError("bind over /proc/bus/input/devices")
        mounted.append("/proc/bus/input/devices")
        nodes = []
        for sysfs, kind, ev, devname in sc["sys"]:
            if not sysfs.startswith("/devices/") or ".." in sysfs:
                continue
            d = "/sys" + sysfs
            if kind == "missing":
                pass
            elif kind == "empty":
                os.makedirs(d + "/id", exist_ok=True)
                open(d + "/uevent", "w").write("PRODUCT=3/46d/c31c/110\n")
            elif kind == "nodevname":
                os.makedirs(d + "/" + ev, exist_ok=True)
                open(d + "/" + ev + "/uevent", "w").write("MAJOR=13\nMINOR=70\n")
            elif kind == "nouevent":
                os.makedirs(d + "/" + ev, exist_ok=True)
            else:
                os.makedirs(d + "/" + ev, exist_ok=True)
                os.makedirs(d + "/capabilities", exist_ok=True)
                open(d + "/name", "w").write("x\n")
                open(d + "/" + ev + "/uevent", "w").write("MAJOR=13\nMINOR=70\nDEVNAME=%s\n" % devname)
                if devname.startswith("input/") and "/" not in devname[6:] and ".." not in devname:
                    nodes.append("/dev/" + devname)
        for path, kind, target in sc["dev"]:
            if not path.startswith("/dev/input/") or ".." in path:
                continue
            os.makedirs(os.path.dirname(path), exist_ok=True)
            if kind == "file":
                open(path, "w").close()
            elif not os.path.lexists(path):
                os.symlink(target, path)
        for n in nodes:      # in this fabricated system every node named by /sys exists
            if not os.path.lexists(n):
                open(n, "w").close()
        nodes = sorted(set(nodes))
        ex = []
        for i, p in enumerate(sc["excl"]):
            ex += [b"--exclude=" + p] if (i + case.get("salt", 0)) % 3 == 0 else [b"--exclude", p]
        lay = [b"--default-layout", case.get("layout", "caps-for-movement").encode()]
        argvs = {"all": [b"remap"] + lay + [b"--all-keyboards", b"--verbose"] + ex,
                 "dev_file": [b"remap", b"--verbose"] + ex + lay + [b"--only-if-keyboard"] + [w for n in nodes for w in (b"--dev-file", n.encode())],
                 "auto": [b"remap"] + ex + [b"--auto-all-keyboards"] + lay + [b"--verbose"]}
        res["nodes"] = nodes
        res["argv"] = {k: [a.decode("utf-8", "backslashreplace") for a in v] for k, v in argvs.items()}
        res["all"] = run_plain(job["bin"], argvs["all"], cdir)
        res["dev_file"] = run_plain(job["bin"], argvs["dev_file"], cdir) if nodes else None
        res["auto"] = run_auto(job["bin"], argvs["auto"], cdir)
    except Exception as ex:  # noqa
        res["setup_error"] = "%s: %s" % (type(ex).__name__, ex)
    finally:
        for mp in reversed(mounted):
            if not ok(["umount", mp]):
                ok(["umount", "-l", mp])
    json.dump(res, open(os.path.join(cdir, "remap.json"), "w"))


def main():
    job = json.load(open(sys.argv[1]))
    work = job["work"]
    # job["outer_ns"] is the mount namespace of the engine process that wrote the job
    try:
        mine = os.readlink("/proc/self/ns/mnt")
    except OSError as ex:
        fail("cannot read /proc/self/ns/mnt: %s" % ex)
    if not job.get("outer_ns") or mine == job["outer_ns"]:
        fail("not in a private mount namespace")
    try:
        if mine == os.readlink("/proc/1/ns/mnt"):
            fail("in the mount namespace of pid 1")
    except OSError:
        pass
    if not ok(["mount", "--make-rprivate", "/"]):
        fail("mount --make-rprivate / failed")
    stash = os.path.join(work, "stash")
    for d in ("dev", "etc", "sbin", "ov"):
        os.makedirs(os.path.join(stash, d), exist_ok=True)
    # ---- private /dev
    if not ok(["mount", "--rbind", "/dev", os.path.join(stash, "dev")]):
        fail("rbind /dev")
    if not ok(["mount", "-t", "tmpfs", "tmpfs", "/dev"]):
        fail("tmpfs on /dev")
    for n in ("null", "zero", "urandom", "random", "tty", "full"):
        src = os.path.join(stash, "dev", n)
        if os.path.exists(src):
            open("/dev/" + n, "w").close()
            ok(["mount", "--bind", src, "/dev/" + n])
    os.makedirs("/dev/input", exist_ok=True)
    # ---- useradd/adduser reset the new uid's entries of /var/log/lastlog and faillog and may create a mail spool:
    # give them private, empty places
    for d in ("/var/log", "/var/mail"):
        if os.path.isdir(d) and ok(["mount", "-t", "tmpfs", "tmpfs", d]) and d == "/var/log":
            for n in ("lastlog", "faillog"):
                open(os.path.join(d, n), "w").close()
    # ---- the real /etc stays reachable for copying
    if not ok(["mount", "--bind", "/etc", os.path.join(stash, "etc")]):
        fail("bind /etc")
    # ---- stubs
    stub = os.path.join(work, "stub.sh")
    open(stub, "w").write(STUB)
    os.chmod(stub, 0o755)
    stubbed = {}
    need_new = []
    for prog in ("systemctl", "udevadm"):
        found = [d + "/" + prog for d in ("/bin", "/sbin", "/usr/bin", "/usr/sbin") if os.path.exists(d + "/" + prog)]
        if found:
            seen = set()
            for p in found:
                rp = os.path.realpath(p)
                if rp in seen:
                    continue
                seen.add(rp)
                if not ok(["mount", "--bind", stub, rp]):
                    fail("bind stub over " + rp)
            stubbed[prog] = "bind mount over " + ", ".join(sorted(seen))
        else:
            need_new.append(prog)
    if need_new:
        sbin = os.path.realpath("/usr/sbin")
        ov = os.path.join(stash, "ov")
        how = None
        if ok(["mount", "-t", "tmpfs", "tmpfs", ov]):
            os.makedirs(ov + "/up"); os.makedirs(ov + "/work")
            if ok(["mount", "-t", "overlay", "overlay", "-o", "lowerdir=%s,upperdir=%s/up,workdir=%s/work" % (sbin, ov, ov), sbin]):
                how = "new file in an overlay over " + sbin
        if how is None:
            if not ok(["mount", "--bind", sbin, os.path.join(stash, "sbin")]) or not ok(["mount", "-t", "tmpfs", "tmpfs", sbin]):
                fail("cannot make %s writable in the namespace" % sbin)
            for n in os.listdir(os.path.join(stash, "sbin")):
                os.symlink(os.path.join(stash, "sbin", n), os.path.join(sbin, n))
            how = "new file in a tmpfs of symlinks over " + sbin
        for prog in need_new:
            shutil.copy(stub, os.path.join(sbin, prog))
            os.chmod(os.path.join(sbin, prog), 0o755)
            stubbed[prog] = how
    print("NSSETUP " + json.dumps(stubbed, sort_keys=True))
    sys.stdout.flush()

    for case in job["cases"]:
        cdir = os.path.join(work, "out", case["id"])
        os.makedirs(cdir, exist_ok=True)
        meta = {"id": case["id"], "rc": None, "timeout": False, "setup_error": None}
        # a fresh tmpfs, filled with a copy of the real /etc, then moved over /etc
        newetc = os.path.join(stash, "etcnew")
        os.makedirs(newetc, exist_ok=True)
        if not ok(["mount", "-t", "tmpfs", "tmpfs", newetc]):
            meta["setup_error"] = "tmpfs for the private /etc"
            json.dump(meta, open(os.path.join(cdir, "meta.json"), "w"))
            continue
        r = run(["cp", "-a", os.path.join(stash, "etc") + "/.", newetc + "/"])
        if not os.path.exists(os.path.join(newetc, "passwd")) or not (ok(["mount", "--move", newetc, "/etc"]) or ok(["mount", "--bind", newetc, "/etc"])):
            meta["setup_error"] = "private /etc could not be set up: " + r.stdout.decode("utf-8", "replace")[-200:]
            ok(["umount", "-l", newetc])
            json.dump(meta, open(os.path.join(cdir, "meta.json"), "w"))
            continue
        try:
            # defence in depth: the code under test writes below /etc and touches /dev/uinput; both must be the private ones
            if os.stat("/etc").st_dev == os.stat(os.path.join(stash, "etc")).st_dev or not os.path.ismount("/etc"):
                raise RuntimeError("/etc is not the private copy")
            if os.stat("/dev").st_dev == os.stat(os.path.join(stash, "dev")).st_dev or not os.path.ismount("/dev"):
                raise RuntimeError("/dev is not the private tmpfs")
            pre = case.get("pre", {})
            # a previous installation must not survive in the copy
            for p in OUT_FILES.values():
                if os.path.exists(p):
                    os.remove(p)
            os.makedirs("/etc/systemd/system", exist_ok=True)
            os.makedirs("/etc/udev", exist_ok=True)
            if not pre.get("no_rules_d"):
                os.makedirs("/etc/udev/rules.d", exist_ok=True)
            elif os.path.isdir("/etc/udev/rules.d"):
                shutil.rmtree("/etc/udev/rules.d")
            have_group = any(l.startswith("input:") for l in open("/etc/group"))
            if pre.get("have_group") and not have_group:
                open("/etc/group", "a").write("input:x:777:\n")
                if os.path.exists("/etc/gshadow"):
                    open("/etc/gshadow", "a").write("input:!::\n")
                have_group = True
            if pre.get("have_user") and not any(l.startswith("totalmapper:") for l in open("/etc/passwd")):
                open("/etc/passwd", "a").write("totalmapper:x:777:65534::/nonexistent:/usr/sbin/nologin\n")
                if os.path.exists("/etc/shadow"):
                    open("/etc/shadow", "a").write("totalmapper:!:19000::::::\n")
            if pre.get("old_files"):
                junk = ("# left over from an earlier installation " + "x" * 90 + "\n") * 4000
                for k in ("unit", "layout", "rule_totalmapper"):
                    if os.path.isdir(os.path.dirname(OUT_FILES[k])):
                        open(OUT_FILES[k], "w").write(junk)
            if os.path.exists("/dev/uinput"):
                os.remove("/dev/uinput")
            open("/dev/uinput", "w").close()
            if pre.get("uinput_ready") and have_group:
                gid = [int(l.split(":")[2]) for l in open("/etc/group") if l.startswith("input:")][0]
                os.chown("/dev/uinput", 0, gid)
                os.chmod("/dev/uinput", 0o660)
            else:
                os.chmod("/dev/uinput", 0o600)
            open(STUB_LOG, "w").close()
            argv = [bytes.fromhex(a) for a in case["argv_hex"]]
            # own session: on a time-out the whole group (the binary and whatever it started) is listed and killed
            p = subprocess.Popen([job["bin"].encode()] + argv, cwd=cdir, stdin=subprocess.DEVNULL, stdout=subprocess.PIPE,
                                 stderr=subprocess.PIPE, start_new_session=True)
            try:
                so, se = p.communicate(timeout=job.get("timeout", 10))
                meta["rc"] = p.returncode
            except subprocess.TimeoutExpired:
                meta["timeout"] = True
                meta["timeout_processes"] = run(["ps", "-o", "pid,ppid,stat,etime,wchan:20,args", "-g", str(p.pid)]).stdout.decode("utf-8", "replace")[-1500:]
                try:
                    os.killpg(p.pid, 9)
                except OSError:
                    pass
                p.kill()
                so, se = p.communicate()
            open(os.path.join(cdir, "stdout"), "wb").write(so[:20000])
            open(os.path.join(cdir, "stderr"), "wb").write(se[:20000])
            for k, p in OUT_FILES.items():
                if os.path.isfile(p):
                    shutil.copyfile(p, os.path.join(cdir, k))
            meta["stub_calls"] = open(STUB_LOG).read().split("\n")[:-1]
            try:
                meta["rules_d"] = sorted(os.listdir("/etc/udev/rules.d"))
            except OSError:
                meta["rules_d"] = None
            st = os.stat("/dev/uinput")
            grp = [l.split(":")[0] for l in open("/etc/group") if len(l.split(":")) > 2 and l.split(":")[2] == str(st.st_gid)]
            meta["uinput"] = {"group": grp[0] if grp else str(st.st_gid), "mode": "%o" % stat.S_IMODE(st.st_mode)}
            meta["user_groups"] = run(["/usr/bin/id", "-Gn", "totalmapper"]).stdout.decode("utf-8", "replace").strip()
        except Exception as ex:  # noqa
            meta["setup_error"] = "%s: %s" % (type(ex).__name__, ex)
        finally:
            if not ok(["umount", "/etc"]):
                ok(["umount", "-l", "/etc"])
            if os.path.ismount(newetc):      # the --bind fallback leaves the tmpfs mounted there as well
                ok(["umount", "-l", newetc])
        json.dump(meta, open(os.path.join(cdir, "meta.json"), "w"))
    for case in job.get("remap_cases", []):
        remap_case(job, case, work)
    print("NSDONE %d" % (len(job["cases"]) + len(job.get("remap_cases", []))))


if __name__ == "__main__":
    main()
