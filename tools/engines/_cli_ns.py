#!/usr/bin/env python3
"""_cli_ns.py JOB.json — worker of the cli engine.  MUST be started as
`unshare -m python3 _cli_ns.py JOB.json`: it refuses to do anything unless it is
in a mount namespace different from the one of the engine process that wrote the
job (and from pid 1's, where that can be read), makes every mount private first,
and then, inside that namespace only,

  * replaces /dev by a tmpfs (null, zero, urandom, random, tty, full bind-mounted
    from the old /dev) so that a plain FILE /dev/uinput can exist — the code under
    test only stat()s, chowns and chmods it — and so that no real input device
    is reachable,
  * puts a logging stub (exit 0) in the place of `systemctl` and `udevadm`
    (bind mount over the existing file, or a new file in an overlay / a tmpfs of
    symlinks over /usr/sbin when the program is not installed); everything else
    add_systemd_service runs (getent, groupadd, id, adduser/useradd, usermod,
    chown, chmod) is the real program,
  * per case: mounts a fresh tmpfs over /etc, filled with a copy of the real
    /etc, applies the case's preconditions, runs the real binary with the raw
    argv bytes (timeout 10 s), copies out what it wrote, unmounts.

Nothing outside the namespace is written except below the job's work directory."""
import sys, os, json, subprocess, shutil, stat

STUB_LOG = "/dev/.cli-stub.log"
STUB = "#!/bin/sh\necho \"$0 $*\" >> %s\nexit 0\n" % STUB_LOG
OUT_FILES = {
    "unit": "/etc/systemd/system/totalmapper@.service",
    "layout": "/etc/totalmapper.json",
    "rule_input": "/etc/udev/rules.d/79-input.rules",
    "rule_totalmapper": "/etc/udev/rules.d/80-totalmapper.rules",
}


def run(cmd, **kw):
    return subprocess.run(cmd, stdout=subprocess.PIPE, stderr=subprocess.STDOUT, **kw)


def ok(cmd):
    return run(cmd).returncode == 0


def fail(msg):
    print("NSFAIL " + msg)
    sys.exit(0)


def unit_files():
    """{path: (mtime_ns, size, inode)} of the regular *.service files below /etc/systemd/system"""
    res = {}
    for d, dn, fn in os.walk("/etc/systemd/system"):
        for f in fn:
            p = os.path.join(d, f)
            if f.endswith(".service") and os.path.isfile(p) and not os.path.islink(p):
                st = os.stat(p)
                res[p] = (st.st_mtime_ns, st.st_size, st.st_ino)
    return res


def main():
    job = json.load(open(sys.argv[1]))
    work = job["work"]
    # job["outer_ns"] is the mount namespace of the engine process that wrote the job
    try:
        mine = os.readlink("/proc/self/ns/mnt")
    except OSError as ex:
        fail("cannot read /proc/self/ns/mnt: %s" % ex)
    if not job.get("outer_ns") or mine == job["outer_ns"]:
        fail("not in a private mount namespace")
    try:
        if mine == os.readlink("/proc/1/ns/mnt"):
            fail("in the mount namespace of pid 1")
    except OSError:
        pass
    if not ok(["mount", "--make-rprivate", "/"]):
        fail("mount --make-rprivate / failed")
    stash = os.path.join(work, "stash")
    for d in ("dev", "etc", "sbin", "ov"):
        os.makedirs(os.path.join(stash, d), exist_ok=True)
    # ---- private /dev
    if not ok(["mount", "--rbind", "/dev", os.path.join(stash, "dev")]):
        fail("rbind /dev")
    if not ok(["mount", "-t", "tmpfs", "tmpfs", "/dev"]):
        fail("tmpfs on /dev")
    for n in ("null", "zero", "urandom", "random", "tty", "full"):
        src = os.path.join(stash, "dev", n)
        if os.path.exists(src):
            open("/dev/" + n, "w").close()
            ok(["mount", "--bind", src, "/dev/" + n])
    os.makedirs("/dev/input", exist_ok=True)
    # ---- useradd/adduser reset the new uid's entries of /var/log/lastlog and faillog and may create a mail spool:
    # give them private, empty places
    for d in ("/var/log", "/var/mail"):
        if os.path.isdir(d) and ok(["mount", "-t", "tmpfs", "tmpfs", d]) and d == "/var/log":
            for n in ("lastlog", "faillog"):
                open(os.path.join(d, n), "w").close()
    # ---- the real /etc stays reachable for copying
    if not ok(["mount", "--bind", "/etc", os.path.join(stash, "etc")]):
        fail("bind /etc")
    # ---- stubs
    stub = os.path.join(work, "stub.sh")
    open(stub, "w").write(STUB)
    os.chmod(stub, 0o755)
    stubbed = {}
    need_new = []
    for prog in ("systemctl", "udevadm"):
        found = [d + "/" + prog for d in ("/bin", "/sbin", "/usr/bin", "/usr/sbin") if os.path.exists(d + "/" + prog)]
        if found:
            seen = set()
            for p in found:
                rp = os.path.realpath(p)
                if rp in seen:
                    continue
                seen.add(rp)
                if not ok(["mount", "--bind", stub, rp]):
                    fail("bind stub over " + rp)
            stubbed[prog] = "bind mount over " + ", ".join(sorted(seen))
        else:
            need_new.append(prog)
    if need_new:
        sbin = os.path.realpath("/usr/sbin")
        ov = os.path.join(stash, "ov")
        how = None
        if ok(["mount", "-t", "tmpfs", "tmpfs", ov]):
            os.makedirs(ov + "/up"); os.makedirs(ov + "/work")
            if ok(["mount", "-t", "overlay", "overlay", "-o", "lowerdir=%s,upperdir=%s/up,workdir=%s/work" % (sbin, ov, ov), sbin]):
                how = "new file in an overlay over " + sbin
        if how is None:
            if not ok(["mount", "--bind", sbin, os.path.join(stash, "sbin")]) or not ok(["mount", "-t", "tmpfs", "tmpfs", sbin]):
                fail("cannot make %s writable in the namespace" % sbin)
            for n in os.listdir(os.path.join(stash, "sbin")):
                os.symlink(os.path.join(stash, "sbin", n), os.path.join(sbin, n))
            how = "new file in a tmpfs of symlinks over " + sbin
        for prog in need_new:
            shutil.copy(stub, os.path.join(sbin, prog))
            os.chmod(os.path.join(sbin, prog), 0o755)
            stubbed[prog] = how
    print("NSSETUP " + json.dumps(stubbed, sort_keys=True))
    sys.stdout.flush()

    for case in job["cases"]:
        cdir = os.path.join(work, "out", case["id"])
        os.makedirs(cdir, exist_ok=True)
        meta = {"id": case["id"], "rc": None, "timeout": False, "setup_error": None}
        # a fresh tmpfs, filled with a copy of the real /etc, then moved over /etc
        newetc = os.path.join(stash, "etcnew")
        os.makedirs(newetc, exist_ok=True)
        if not ok(["mount", "-t", "tmpfs", "tmpfs", newetc]):
            meta["setup_error"] = "tmpfs for the private /etc"
            json.dump(meta, open(os.path.join(cdir, "meta.json"), "w"))
            continue
        r = run(["cp", "-a", os.path.join(stash, "etc") + "/.", newetc + "/"])
        if not os.path.exists(os.path.join(newetc, "passwd")) or not (ok(["mount", "--move", newetc, "/etc"]) or ok(["mount", "--bind", newetc, "/etc"])):
            meta["setup_error"] = "private /etc could not be set up: " + r.stdout.decode("utf-8", "replace")[-200:]
            ok(["umount", "-l", newetc])
            json.dump(meta, open(os.path.join(cdir, "meta.json"), "w"))
            continue
        try:
            # defence in depth: the code under test writes below /etc and touches /dev/uinput; both must be the private ones
            if os.stat("/etc").st_dev == os.stat(os.path.join(stash, "etc")).st_dev or not os.path.ismount("/etc"):
                raise RuntimeError("/etc is not the private copy")
            if os.stat("/dev").st_dev == os.stat(os.path.join(stash, "dev")).st_dev or not os.path.ismount("/dev"):
                raise RuntimeError("/dev is not the private tmpfs")
            pre = case.get("pre", {})
            # a previous installation must not survive in the copy
            for p in OUT_FILES.values():
                if os.path.exists(p):
                    os.remove(p)
            os.makedirs("/etc/systemd/system", exist_ok=True)
            os.makedirs("/etc/udev", exist_ok=True)
            if not pre.get("no_rules_d"):
                os.makedirs("/etc/udev/rules.d", exist_ok=True)
            elif os.path.isdir("/etc/udev/rules.d"):
                shutil.rmtree("/etc/udev/rules.d")
            have_group = any(l.startswith("input:") for l in open("/etc/group"))
            if pre.get("have_group") and not have_group:
                open("/etc/group", "a").write("input:x:777:\n")
                if os.path.exists("/etc/gshadow"):
                    open("/etc/gshadow", "a").write("input:!::\n")
                have_group = True
            if pre.get("have_user") and not any(l.startswith("totalmapper:") for l in open("/etc/passwd")):
                open("/etc/passwd", "a").write("totalmapper:x:777:65534::/nonexistent:/usr/sbin/nologin\n")
                if os.path.exists("/etc/shadow"):
                    open("/etc/shadow", "a").write("totalmapper:!:19000::::::\n")
            if pre.get("old_files"):
                junk = ("# left over from an earlier installation " + "x" * 90 + "\n") * 4000
                for k in ("unit", "layout", "rule_totalmapper"):
                    if os.path.isdir(os.path.dirname(OUT_FILES[k])):
                        open(OUT_FILES[k], "w").write(junk)
            if os.path.exists("/dev/uinput"):
                os.remove("/dev/uinput")
            open("/dev/uinput", "w").close()
            if pre.get("uinput_ready") and have_group:
                gid = [int(l.split(":")[2]) for l in open("/etc/group") if l.startswith("input:")][0]
                os.chown("/dev/uinput", 0, gid)
                os.chmod("/dev/uinput", 0o660)
            else:
                os.chmod("/dev/uinput", 0o600)
            open(STUB_LOG, "w").close()
            units_before = unit_files()
            argv = [bytes.fromhex(a) for a in case["argv_hex"]]
            # own session: on a time-out the whole group (the binary and whatever it started) is listed and killed
            p = subprocess.Popen([job["bin"].encode()] + argv, cwd=cdir, stdin=subprocess.DEVNULL, stdout=subprocess.PIPE,
                                 stderr=subprocess.PIPE, start_new_session=True)
            try:
                so, se = p.communicate(timeout=job.get("timeout", 10))
                meta["rc"] = p.returncode
            except subprocess.TimeoutExpired:
                meta["timeout"] = True
                meta["timeout_processes"] = run(["ps", "-o", "pid,ppid,stat,etime,wchan:20,args", "-g", str(p.pid)]).stdout.decode("utf-8", "replace")[-1500:]
                try:
                    os.killpg(p.pid, 9)
                except OSError:
                    pass
                p.kill()
                so, se = p.communicate()
            open(os.path.join(cdir, "stdout"), "wb").write(so[:20000])
            open(os.path.join(cdir, "stderr"), "wb").write(se[:20000])
            for k, p in OUT_FILES.items():
                if os.path.isfile(p) and k not in ("unit", "layout"):
                    shutil.copyfile(p, os.path.join(cdir, k))
            # the unit: whatever *.service file this run created or rewrote below /etc/systemd/system - the expected name
            # if it is among them, else the only one; the layout: the file the unit's --layout-file argument names
            units_after = unit_files()
            new_units = sorted(p for p, sig in units_after.items() if units_before.get(p) != sig)
            meta["new_units"] = new_units
            chosen = OUT_FILES["unit"] if OUT_FILES["unit"] in new_units else (new_units[0] if len(new_units) == 1 else None)
            meta["unit_path"] = chosen
            if chosen:
                shutil.copyfile(chosen, os.path.join(cdir, "unit"))
            elif os.path.isfile(OUT_FILES["unit"]):
                meta["unit_stale"] = True          # there, but not written by this run
                shutil.copyfile(OUT_FILES["unit"], os.path.join(cdir, "unit_stale"))
            lay = None
            if chosen:
                try:
                    for line in open(chosen, "rb").read().decode("utf-8", "replace").split("\n"):
                        if line.startswith("ExecStart="):
                            w = line[len("ExecStart="):].split()
                            for i, x in enumerate(w):
                                if x == "--layout-file" and i + 1 < len(w):
                                    lay = w[i + 1]
                                elif x.startswith("--layout-file="):
                                    lay = x[len("--layout-file="):]
                except OSError:
                    pass
            if not (lay and lay.startswith("/") and "\\" not in lay and os.path.isfile(lay)):
                lay = OUT_FILES["layout"]
            meta["layout_path"] = lay
            if os.path.isfile(lay):
                shutil.copyfile(lay, os.path.join(cdir, "layout"))
            meta["stub_calls"] = open(STUB_LOG).read().split("\n")[:-1]
            try:
                meta["rules_d"] = sorted(os.listdir("/etc/udev/rules.d"))
            except OSError:
                meta["rules_d"] = None
            st = os.stat("/dev/uinput")
            grp = [l.split(":")[0] for l in open("/etc/group") if len(l.split(":")) > 2 and l.split(":")[2] == str(st.st_gid)]
            meta["uinput"] = {"group": grp[0] if grp else str(st.st_gid), "mode": "%o" % stat.S_IMODE(st.st_mode)}
            meta["user_groups"] = run(["/usr/bin/id", "-Gn", "totalmapper"]).stdout.decode("utf-8", "replace").strip()
        except Exception as ex:  # noqa
            meta["setup_error"] = "%s: %s" % (type(ex).__name__, ex)
        finally:
            if not ok(["umount", "/etc"]):
                ok(["umount", "-l", "/etc"])
            if os.path.ismount(newetc):      # the --bind fallback leaves the tmpfs mounted there as well
                ok(["umount", "-l", newetc])
        json.dump(meta, open(os.path.join(cdir, "meta.json"), "w"))
    print("NSDONE %d" % len(job["cases"]))


if __name__ == "__main__":
    main()
