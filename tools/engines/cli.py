"""cli engine (properties C17, C15, C16): the REAL binary, end to end.

Every other engine calls library functions of /repo through the harness crate.
The glue in src/main.rs (clap definitions, dispatch, load_layout) and
udev_utils::add_systemd_service -> write_layout_to_global_config /
write_systemd_service (fixed paths below /etc) is reached only here: the binary
is built from the working tree WITHOUT the verification cfg (tools/engines/
_realbin.py) and run in a private mount namespace (`unshare -m`), where
tools/engines/_cli_ns.py gives it a private /etc, /dev and stubbed
systemctl/udevadm.

  C17.cli_unit        `totalmapper add_systemd_service (--default-layout N |
                      --layout-file F) [--exclude P]...` with argv as raw bytes;
                      the unit the run installs (/etc/systemd/system/
                      totalmapper@.service, or the one new *.service file there)
                      must pass the escape engine's two extracted judgements for
                      exactly the user's pattern list: text_class_ok (the one
                      ExecStart= of [Service] ends, byte for byte, with the
                      model's text from the exclude region on, after an intact
                      prefix) and c17_check (systemd's reading of ExecStart
                      yields --exclude <pattern> per pattern) (ocaml/
                      escape_check.ml on CASE lines made from the files).  A run
                      that installs no unit on an accepted argv is a hit.
  C15.cli_saved_file  the layout file of the same run (the file the installed
                      unit's --layout-file names; /etc/totalmapper.json), loaded
                      by the real layout_loading::load_layout_from_file
                      (tm-harness cli-load), must equal the layout the input
                      denotes (the same function on F, or DEFAULT_LAYOUTS[N] ->
                      parse -> convert).
  C16.cli_excludes    `totalmapper remap --default-layout X --all-keyboards |
                      --dev-file D... --only-if-keyboard | --auto-all-keyboards
                      --verbose --exclude P...` (and list_keyboards) over a
                      fabricated /proc/bus/input/devices, /sys/devices,
                      /dev/input (tm-harness listing-ns --real-bin).  Judged by
                      what the binary DOES: which fabricated nodes it opens
                      (inotify; the loop opens the selected nodes in order and
                      stops at the first failure, the auto mode opens them all),
                      against the extracted listing model's selection
                      (ocaml/listing_check.ml ns); every scenario is run once per
                      entry of its device list, that entry rotated to the front,
                      so that every device is the first candidate once.  The
                      verbose log is a secondary observation: used only if, in
                      the whole run, it always has the expected shape and agrees
                      with the opens; otherwise counted and ignored.
  C16.cli_modes_agree on the same scenarios the three ways of naming devices —
                      --all-keyboards, --dev-file <every node> --only-if-keyboard
                      (both over the rotations), --auto-all-keyboards (killed once
                      it sleeps after its first round) — must open the same set of
                      nodes (the dev-file comparison under the guards of
                      C16_selection_same).

If `unshare -m true` fails the engine gives no verdict (ok, zero evaluations,
stats say "skipped")."""
import os, sys, json, re, time, glob, shutil, random, subprocess
from concurrent.futures import ThreadPoolExecutor

from engines import _realbin
from engines import escape as esc
from engines import listing as lst

NEEDS_MODEL = False      # uses the escape and listing models; built below through ctx["build_model"]
NEEDS_HARNESS = True
ENGINE = "cli"
NS_WORKER = os.path.join(os.path.dirname(os.path.abspath(__file__)), "_cli_ns.py")

SYNTAX_ASCII = list(" \t\n\r\\\"';%${}*?#!-@:,./=~+|&<>()[]`^_") + ["\x01", "\x07", "\x08", "\x0b", "\x0c", "\x1b", "\x7f"]
SYNTAX_WIDE = ["\u0080", "\u0085", "\u009f", "\u00a0", "\ufffe", "\uffff", "\ufdd0", "\ufdef", "\ufffd", "\U0010ffff", "\U0001fffe",
               "\ue000", "\ud7ff", "\u2028", "\ufeff", "\u00e9", "\U0001f600", "\u3000", "\u2003"]
LETTERS = list("iInNxuUsabfrtvhHzAZ079")
HAND = [
    "$HOME", "${HOME}", "a${HOME}b", "$", "$$", "$1", "${", "${A:-b}", "}", "$ ", " $", "Cash$$Register",
    "%i", "%I", "%h", "%%", "%", "%z", "a%", "%%i", "100%", "%n.service",
    "\\n", "\\x41", "\\", "a\\", "\\\\", "\\;", "\\s", "\\u0041", "\\101",
    ";", "a;b", "; ;", ";;", " ; ", "a ;", "; b",
    "'", "\"", "'a b'", "\"a b\"", "a'b", "a\"b", "''", "\"\"", "'\"'",
    "-", "--", "--exclude", "-x", "--verbose", "--dev-file", "-h", "--help", "--exclude=a", "=", "=x", "a=b", "a,b", ",",
    "a b", " a", "a ", "  ", " ", "\t", "a\tb", "a\nb", "a\rb", "a\r\nb", "\n", "\nExecStart=/bin/evil", "a\nUser=root",
    "*Mouse*", "*?[a-z]", "?", "*", "#x", "!x", "@x", ":x", "+x", "|x", "~", "x#y",
    "\u00e9", "\u65e5\u672c\u8a9e", "\U0001f600", "\u2028", "\u2029", "\ufeff", "\u200b", "\u0085", "\u00a0", "x\u00a0", "\u3000", "\u007f",
    "\u001b[31m", "\ufffe", "\uffff", "\ufdd0", "\U0010fffe", "\ufffd", "a\ufffeb", "\u0001", "x\u0007y\u0008z",
    "Dell Mouse", "Logitech USB Receiver", "AT Translated Set 2 keyboard",
]
HAND_LISTS = [
    [], ["*Mouse*", "*Switch*"], [";", ";"], ["'", "'"], ["\"", "\""], ["$A", "%i", "\\"], ["a", "b", "c", "d", "e"],
    ["a", "a"], ["b", "a"], ["a", "b", "a"], ["x y", "x", "y"], ["--exclude", "--exclude"], ["*", "?", "*"],
    ["last\u00a0"], ["a", "tail\u3000"], ["-", "-"], ["z", "y", "x", "w", "v", "u", "t", "s"],
]
# argv that clap is expected to refuse (recorded in the statistics, never a hit)
REJECTED_SHAPES = [
    ("leading-dash-two-words", [b"--exclude", b"-x"]),
    ("double-dash-two-words", [b"--exclude", b"--"]),
    ("option-as-value", [b"--exclude", b"--verbose"]),
    ("invalid-utf8", [b"--exclude", b"\xff\xfe"]),
    ("invalid-utf8-eq", [b"--exclude=\xc3"]),
    ("two-values", [b"--exclude", b"a", b"b"]),
    ("abbreviated-option", [b"--exclud", b"a"]),
    ("missing-value", [b"--exclude"]),
]

MODS = ["LEFTSHIFT", "RIGHTSHIFT", "LEFTCTRL", "RIGHTCTRL", "LEFTALT", "RIGHTALT", "LEFTMETA", "CAPSLOCK", "TAB", "F13", "KATAKANA", "SPACE"]
KEYS = ["A", "S", "D", "J", "K", "Q", "X", "1", "2", "0", "K3", "SEMICOLON", "ENTER", "ESC", "F20", "F21", "LEFT", "BACKSPACE", "GRAVE", "KP5",
        "PAGEUP", "DELETE", "MINUS", "DOT", "Z", "M", "F1", "HOME"]
ROWS = [("`", 13), ("1", 12), ("Q", 12), ("A", 11), ("Z", 10), ("q", 12), ("a", 11), ("z", 10)]
MS = [0, 1, 2147483647, -1, -5, 180, 30, -2147483648, 65536, 999]
HAND_LAYOUTS = [
    {"mappings": [
        {"from": "CAPSLOCK", "to": "@sym"}, {"from": "RIGHTALT", "to": "@sym"},
        {"from": ["@sym", {"row": "Q"}], "to": {"letters": " {}% \\*][|~"}},
        {"from": ["@sym", "LEFTSHIFT", "J"], "to": ["LEFTCTRL", "LEFT"], "absorbing": ["@sym"],
         "repeat": {"Special": {"keys": ["F21", "A"], "delay_ms": -5, "interval_ms": 2147483647}}},
        {"from": ["TAB", "K"], "to": [], "repeat": "Disabled", "absorbing": "TAB"},
        {"from": "SEMICOLON", "to": "S", "repeat": {"Special": {"keys": [], "delay_ms": -2147483648, "interval_ms": 0}}}]},
    {"mappings": [
        {"from": ["LEFTSHIFT", "RIGHTSHIFT", "LEFTCTRL", "A"], "to": ["B"], "absorbing": ["RIGHTSHIFT", "LEFTSHIFT"], "repeat": "disabled"},
        {"from": ["LEFTSHIFT", "RIGHTSHIFT", "LEFTCTRL", "A"], "repeat": {"Special": {"keys": "F20", "delay_ms": 65536, "interval_ms": -1}}},
        {"from": "A", "to": []}, {"from": ["CAPSLOCK", {"row": "a"}], "to": ["LEFTALT", {"letters": "12 45"}],
                                  "repeat": {"Special": {"keys": {"letters": "ab"}, "delay_ms": 1, "interval_ms": 1}}}]},
    {"mappings": []},
]


# ---------------------------------------------------------------- generators

def hexs(b):
    return b.hex()


def show_arg(b):
    return b.decode("utf-8", "backslashreplace")


def gen_pattern(rng):
    n = rng.choice([1, 1, 2, 2, 3, 4, 5, 6, 8, 12])
    out = []
    for _ in range(n):
        k = rng.random()
        if k < 0.5:
            out.append(rng.choice(SYNTAX_ASCII))
        elif k < 0.7:
            out.append(chr(rng.randrange(0x21, 0x7f)))
        elif k < 0.8:
            out.append(rng.choice(LETTERS))
        elif k < 0.9:
            out.append(rng.choice(SYNTAX_WIDE))
        else:
            while True:
                c = rng.choice([rng.randrange(1, 0x20), rng.randrange(0x7f, 0xa1), rng.randrange(0xa0, 0xd800), rng.randrange(0xe000, 0x110000)])
                if c:
                    out.append(chr(c)); break
    return "".join(out)


def gen_layout(rng):
    ms, aliases = [], []
    names = ["@a", "@shift", "@sym", "@m"]
    rng.shuffle(names)
    for name in names[:rng.randrange(0, 3)]:
        for _ in range(rng.randrange(1, 3)):
            k = rng.choice(MODS)
            ms.append({"from": [k] if rng.random() < 0.5 else k, "to": name})
        aliases.append(name)

    def mods():
        pool = aliases + aliases + MODS if aliases else MODS
        out = []
        for _ in range(rng.randrange(0, 4)):
            m = rng.choice(pool)
            if m not in out:
                out.append(m)
        return out

    def to_single(md):
        k = rng.randrange(6)
        if k == 0:
            return []
        if k <= 2:
            x = rng.choice(KEYS)
            return [x] if rng.random() < 0.5 else x
        return [rng.choice(md) if md and rng.random() < 0.5 else rng.choice(MODS) for _ in range(rng.randrange(1, 3))] + [rng.choice(KEYS)]

    def repeat(md, row_len=None):
        k = rng.randrange(6)
        if k <= 1:
            return None
        if k == 2:
            return rng.choice(["Normal", "normal", "NORMAL"])
        if k == 3:
            return rng.choice(["Disabled", "disabled", "DISABLED"])
        if row_len is not None:
            keys = {"letters": letters(row_len)}
            if rng.random() < 0.3:
                keys = [rng.choice(MODS), keys]
        else:
            keys = to_single(md)
        return {"Special": {"keys": keys, "delay_ms": rng.choice(MS), "interval_ms": rng.choice(MS)}}

    def letters(maxlen):
        return "".join(" " if rng.random() < 0.25 else chr(rng.randrange(33, 127)) for _ in range(rng.randrange(0, maxlen + 1)))

    def absorbing(md):
        if not md or rng.random() < 0.6:
            return None
        v = [m for m in md if rng.random() < 0.5] or [md[0]]
        return v[0] if len(v) == 1 and rng.random() < 0.5 else v

    singles = []
    for _ in range(rng.randrange(1, 6)):
        k = rng.random()
        md = mods()
        m = {}
        if k < 0.55:
            key = rng.choice(KEYS)
            m["from"] = md + [key] if md else ([key] if rng.random() < 0.5 else key)
            m["to"] = to_single(md)
            r = repeat(md)
            singles.append(m)
        elif k < 0.85 or not singles:
            row, rl = rng.choice(ROWS)
            l = letters(rl)
            m["from"] = md + [{"row": row}]
            m["to"] = [rng.choice(MODS), {"letters": l}] if rng.random() < 0.3 else {"letters": l}
            r = repeat(md, len(l))
        else:
            m["from"] = rng.choice(singles)["from"]
            r = repeat([], None) or "Disabled"
            md = []
        if r is not None:
            m["repeat"] = r
        a = absorbing(md)
        if a is not None:
            m["absorbing"] = a
        ms.append(m)
    if rng.random() < 0.25:
        rng.shuffle(ms)
    return {"mappings": ms}


def readme_blocks(repo):
    out = []
    try:
        text = open(os.path.join(repo, "README.md"), encoding="utf-8").read()
    except OSError:
        return out
    for b in re.findall(r"```json\n(.*?)```", text, re.S):
        v = None
        for cand in (b, "[" + b + "]"):
            try:
                v = json.loads(cand); break
            except ValueError:
                pass
        if isinstance(v, dict) and "from" in v:
            v = {"mappings": [v]}
        elif isinstance(v, list):
            v = {"mappings": v}
        if isinstance(v, dict) and "mappings" in v:
            out.append(v)
    return out


def harness_load(ctx, args):
    """[(kind, value)] -> {hex of value: line after the hex}"""
    res = {}
    for i in range(0, len(args), 200):
        cmd = [ctx["harness"], "cli-load"]
        for k, v in args[i:i + 200]:
            cmd += [k, v]
        rc, out, _ = ctx["sh"](cmd, timeout=600)
        for line in out.split("\n"):
            t = line.split(" ", 2)
            if len(t) == 3 and t[0] == "L":
                res[t[1]] = t[2]
    return res


def show_load(line):
    if line is None:
        return "(no answer)"
    if line.startswith("E "):
        return "Err(%s)" % bytes.fromhex(line[2:]).decode("utf-8", "replace")
    if line == "P":
        return "PANIC"
    parts = line.split("|")
    return {"mappings": parts[0][2:], "first_mappings": parts[1:7]}


def layout_sources(ctx, work, rng, n_gen, real_bin):
    """-> (valid sources, invalid file sources, notes).  A source is {"kind": "builtin", "name"} or {"kind": "file", "path", "origin"}"""
    notes = {}
    srcs = []
    p = subprocess.run([real_bin, "list_default_layouts"], stdout=subprocess.PIPE, stderr=subprocess.PIPE, timeout=20)
    names = sorted(x for x in p.stdout.decode("utf-8", "replace").split("\n") if x.strip())
    notes["builtins_listed_by_the_binary"] = names
    for n in names:
        srcs.append({"kind": "builtin", "name": n})
    for f in sorted(glob.glob(os.path.join(ctx["repo"], "working", "syntax-examples", "*.json"))):
        srcs.append({"kind": "file", "path": f, "origin": "repo"})
    ldir = os.path.join(work, "layouts")
    os.makedirs(ldir, exist_ok=True)
    odd_names = ["with space.json", "qu'ote\".json", "\u00fcn\u00ef\u2003.json", "100%$HOME;.json", "a=b,c.json"]
    made = []
    for i, v in enumerate(readme_blocks(ctx["repo"])):
        made.append(("readme-%d.json" % i, v, "readme"))
    for i, v in enumerate(HAND_LAYOUTS):
        made.append(("hand-%d.json" % i, v, "hand"))
    for i in range(3 * n_gen + 6):
        name = odd_names[i] if i < len(odd_names) else "gen-%03d.json" % i
        made.append((name, gen_layout(rng), "generated"))
    files = []
    for name, v, origin in made:
        path = os.path.join(ldir, name)
        text = json.dumps(v, indent=rng.choice([None, 1, 2]), ensure_ascii=rng.random() < 0.5)
        open(path, "w", encoding="utf-8").write(text)
        files.append({"kind": "file", "path": path, "origin": origin, "content": text})
    loaded = harness_load(ctx, [("--builtin", s["name"]) if s["kind"] == "builtin" else ("--file", s["path"]) for s in srcs + files])
    valid, invalid, n_generated = [], [], 0
    for s in srcs + files:
        key = (s["name"] if s["kind"] == "builtin" else s["path"]).encode().hex()
        s["expected"] = loaded.get(key)
        if s["expected"] is None:
            continue
        if s["expected"].startswith("O "):
            if s.get("origin") == "generated":
                if n_generated >= n_gen:
                    continue
                n_generated += 1
            valid.append(s)
        elif s.get("origin") in ("generated", "hand"):
            invalid.append(s)
    notes["layout_sources"] = {"builtin": len(names), "repo_examples": sum(1 for s in valid if s.get("origin") == "repo"),
                               "readme_blocks": sum(1 for s in valid if s.get("origin") == "readme"),
                               "hand_written": sum(1 for s in valid if s.get("origin") == "hand"), "generated": n_generated,
                               "generated_rejected_by_the_loader": sum(1 for s in invalid if s.get("origin") == "generated")}
    return valid, invalid, notes


def exclude_args(rng, patterns):
    """argv words for the patterns, in a spelling clap accepts"""
    out, forms = [], []
    for p in patterns:
        b = p.encode("utf-8")
        if (b.startswith(b"-") and b != b"-") or rng.random() < 0.3:
            out.append([b"--exclude=" + b]); forms.append("eq")
        else:
            out.append([b"--exclude", b]); forms.append("sep")
    return out, forms


def build_cases(ctx, rng, sources, invalid, tier, budget):
    thorough = tier == "thorough"
    mult = 5 if budget == "search" else 1
    lists = []        # (family, patterns)
    for l in HAND_LISTS:
        lists.append(("hand-list", l))
    hand = list(HAND)
    rng.shuffle(hand)
    n_hand = len(hand) if thorough else 10 * mult
    for p in hand[:n_hand]:
        lists.append(("hand", [p]))
    if thorough:
        for c in SYNTAX_ASCII + SYNTAX_WIDE:
            lists.append(("single", [c]))
        allc = [chr(i) for i in range(1, 128)]
        rng.shuffle(allc)
        for i in range(0, len(allc), 8):
            lists.append(("ascii-sweep", allc[i:i + 8]))
        pairs = [x + y for x in SYNTAX_ASCII for y in SYNTAX_ASCII]
        rng.shuffle(pairs)
        for i in range(0, len(pairs), 16):
            lists.append(("pair", pairs[i:i + 16]))
    else:
        sw = SYNTAX_ASCII + SYNTAX_WIDE[:8]
        rng.shuffle(sw)
        for i in range(0, len(sw), 12):
            lists.append(("ascii-sweep", sw[i:i + 12]))
        pairs = [x + y for x in SYNTAX_ASCII for y in SYNTAX_ASCII]
        rng.shuffle(pairs)
        for i in range(0, 48 * mult, 16):
            lists.append(("pair", pairs[i:i + 16]))
    n_random = (300 if thorough else 8) * mult
    for _ in range(n_random):
        k = rng.choice([0, 1, 1, 1, 2, 2, 3, 4, 5, 6])
        lists.append(("random", [gen_pattern(rng) for _ in range(k)]))
    lists = [(f, [p for p in l if p and "\0" not in p]) for f, l in lists]
    # every layout source at least once; more cases than sources: sources are reused
    n = max(len(lists), len(sources))
    cases = []
    pres = [{}, {}, {"have_group": True}, {"have_user": True, "have_group": True}, {"old_files": True}, {"no_rules_d": True},
            {"have_group": True, "uinput_ready": True}, {"old_files": True, "have_user": True, "have_group": True, "uinput_ready": True}]
    order = list(range(n))
    rng.shuffle(order)
    for i in range(n):
        fam, pats = lists[i % len(lists)] if i < len(lists) else ("random", [gen_pattern(rng) for _ in range(rng.randrange(0, 4))])
        src = sources[order[i] % len(sources)]
        ex, forms = exclude_args(rng, pats)
        lay = [b"--default-layout", src["name"].encode()] if src["kind"] == "builtin" else [b"--layout-file", src["path"].encode()]
        if rng.random() < 0.25:
            lay = [lay[0] + b"=" + lay[1]]
        pos = rng.randrange(0, len(ex) + 1)
        words = ex[:pos] + [lay] + ex[pos:]
        argv = [b"add_systemd_service"] + [w for g in words for w in g]
        cases.append({"id": "a%04d" % i, "kind": "add_systemd_service", "family": fam, "patterns": pats, "forms": forms, "source": src,
                      "argv": argv, "pre": pres[i % len(pres)] if fam != "hand-list" or i % 3 else {}, "expect": "accepted"})
    # argv clap refuses / layouts the loader refuses: what the binary does with them is recorded, not judged
    shapes = REJECTED_SHAPES if thorough else REJECTED_SHAPES[:4]
    for j, (name, words) in enumerate(shapes):
        src = sources[j % len(sources)]
        lay = [b"--default-layout", src["name"].encode()] if src["kind"] == "builtin" else [b"--layout-file", src["path"].encode()]
        cases.append({"id": "r%04d" % j, "kind": "add_systemd_service", "family": "rejected:" + name, "patterns": None, "source": src,
                      "argv": [b"add_systemd_service"] + lay + words, "pre": {}, "expect": "usage-error"})
    for j, src in enumerate(invalid[:(6 if thorough else 2)]):
        cases.append({"id": "l%04d" % j, "kind": "add_systemd_service", "family": "rejected:layout", "patterns": None, "source": src,
                      "argv": [b"add_systemd_service", b"--layout-file", src["path"].encode(), b"--exclude", b"x"], "pre": {}, "expect": "layout-error"})
    return cases


# ---------------------------------------------------------------- running

def run_in_namespace(ctx, work, real_bin, cases, tag="w"):
    """runs the cases with a pool of namespace workers; returns (setup note, error)"""
    nw = max(1, min(16, os.cpu_count() or 4, (len(cases) + 2) // 3))
    jobs = []
    for w in range(nw):
        wdir = os.path.join(work, "%s%02d" % (tag, w))
        os.makedirs(wdir, exist_ok=True)
        mine = cases[w::nw]
        job = {"work": wdir, "bin": real_bin, "outer_ns": os.readlink("/proc/self/ns/mnt"),
               "cases": [{"id": c["id"], "argv_hex": [a.hex() for a in c["argv"]], "pre": c["pre"]} for c in mine]}
        jf = os.path.join(wdir, "job.json")
        json.dump(job, open(jf, "w"))
        for c in mine:
            c["out"] = os.path.join(wdir, "out", c["id"])
        jobs.append((jf, len(mine)))

    def one(j):
        jf, n = j
        try:
            p = subprocess.run(["unshare", "-m", sys.executable, NS_WORKER, jf], stdout=subprocess.PIPE, stderr=subprocess.STDOUT,
                               timeout=60 + 14 * n, stdin=subprocess.DEVNULL)
            return p.returncode, p.stdout.decode("utf-8", "replace")
        except subprocess.TimeoutExpired as ex:
            return 124, (ex.stdout or b"").decode("utf-8", "replace") + "\n[worker timeout]"
    with ThreadPoolExecutor(max_workers=nw) as ex:
        outs = list(ex.map(one, jobs))
    setup = None
    for rc, out in outs:
        m = re.search(r"^NSFAIL (.*)$", out, re.M)
        if m:
            return None, "namespace setup failed: " + m.group(1)
        if rc != 0 or "NSDONE" not in out:
            return None, "namespace worker failed (rc=%d): %s" % (rc, out[-400:])
        m = re.search(r"^NSSETUP (.*)$", out, re.M)
        if m and setup is None:
            setup = json.loads(m.group(1))
    return setup, None


def read_case(c):
    d = c.get("out", "")
    try:
        c["meta"] = json.load(open(os.path.join(d, "meta.json")))
    except (OSError, ValueError):
        c["meta"] = {"setup_error": "no result for this case"}
    for k in ("unit", "layout", "rule_input", "rule_totalmapper", "stdout", "stderr"):
        try:
            c[k] = open(os.path.join(d, k), "rb").read()
        except OSError:
            c[k] = None


def case_input(c):
    src = c["source"]
    inp = {"kind": c["kind"], "family": c["family"], "argv": ["totalmapper"] + [show_arg(a) for a in c["argv"]], "argv_hex": [a.hex() for a in c["argv"]],
           "patterns": c["patterns"], "preconditions": c["pre"],
           "layout": {"builtin": src["name"]} if src["kind"] == "builtin" else {"file": src["path"]}}
    if src.get("content") is not None:
        inp["files"] = {src["path"]: src["content"]}
    return inp


def count_by(it):
    d = {}
    for x in it:
        d[x] = d.get(x, 0) + 1
    return d


def tail(b, n=300):
    return (b or b"").decode("utf-8", "replace")[-n:]


def pats_field(pats):
    if not pats:
        return "-"
    return "|".join(".".join("%x" % ord(ch) for ch in p) for p in pats)


def judge_add(ctx, work, cases, escape_exe):
    """-> (hits, stats, samples, error)"""
    hits, stats, samples = [], {}, []
    for c in cases:
        read_case(c)
    bad = [c for c in cases if c["meta"].get("setup_error")]
    if bad:
        return [], {}, [], "namespace case setup failed: " + str(bad[0]["meta"]["setup_error"])
    acc = [c for c in cases if c["expect"] == "accepted"]
    rej = [c for c in cases if c["expect"] != "accepted"]
    # ---- argv / layouts expected to be refused: recorded only
    rejected = {}
    for c in rej:
        rc = c["meta"].get("rc")
        wrote = [k for k in ("unit", "layout") if c[k] is not None]
        msg = [l.strip() for l in ((c["stderr"] or b"") + b"\n" + (c["stdout"] or b"")).decode("utf-8", "replace").split("\n") if l.strip() and not l.startswith("WARNING: /usr/bin/totalmapper")]
        rejected[c["family"][9:]] = "rc=%s%s: %s" % (rc, " BUT WROTE " + ",".join(wrote) if wrote else ", nothing written", msg[0][:140] if msg else "(no message)")
    stats["cli_argv_and_layouts_expected_to_be_refused"] = rejected
    # ---- C17: the unit file
    casefile = os.path.join(work, "c17", "cases-00000.txt")
    os.makedirs(os.path.dirname(casefile), exist_ok=True)
    by_id = {}
    n_exit_bad = 0
    with open(casefile, "w") as f:
        for i, c in enumerate(acc):
            rc = c["meta"].get("rc")
            if rc != 0:
                n_exit_bad += 1
            if c["unit"] is None or rc != 0:
                hits.append({"engine": ENGINE, "clause": "C17.cli_unit", "known_class": None, "input": case_input(c),
                             "observed": {"exit_code": rc, "timeout": c["meta"].get("timeout"), "unit_file": "missing" if c["unit"] is None else "written",
                                          "stdout": tail(c["stdout"]), "stderr": tail(c["stderr"]), "processes_at_timeout": c["meta"].get("timeout_processes")},
                             "expected": "exit code 0 and a unit file (/etc/systemd/system/totalmapper@.service, or one new *.service file there) written by this run",
                             "note": "add_systemd_service did not install the unit for an argv the command line accepts"})
                continue
            if len(c["unit"]) > 200000:
                hits.append({"engine": ENGINE, "clause": "C17.cli_unit", "known_class": None, "input": case_input(c),
                             "observed": {"unit_file_bytes": len(c["unit"]), "unit_file_head": tail(c["unit"][:400], 400)},
                             "expected": "the model's unit text for the patterns of the command line (a few hundred bytes)",
                             "note": "the installed unit file is far longer than any unit text for these patterns (stale content not truncated?)"})
                continue
            by_id[str(i)] = c
            f.write("CASE %d cli %s %s\n" % (i, pats_field(c["patterns"]), c["unit"].hex()))
    text = esc.run_checker({"sh": ctx["sh"], "model_exe": escape_exe}, os.path.dirname(casefile))
    if "CHECKER-FAILED" in text or "SUMMARY" not in text:
        return [], {}, [], "model-side checker (escape_check on the installed unit files) failed: " + text[-400:]
    summary = {}
    n_outside = [0]
    for line in text.split("\n"):
        m = re.match(r"DIFF id=(\d+) tag=\S+ class=(\w+) pats=(\S*) impl=(\S+) model=(\S+)$", line)
        if m:
            c = by_id[m.group(1)]
            # C17 speaks of the ExecStart line: a unit text that differs from the model's elsewhere only (Description= ...)
            # is recorded, not judged; c17_check below still reads the whole real text the way systemd does
            ex_i = [l for l in bytes.fromhex(m.group(4)).split(b"\n") if l.startswith(b"ExecStart=")]
            ex_m = [l for l in bytes.fromhex(m.group(5)).split(b"\n") if l.startswith(b"ExecStart=")]
            if ex_i == ex_m and len(ex_i) == 1:
                n_outside[0] += 1
                continue
            # the installed text is not the MODEL's text for these patterns: that breaks the correspondence with Escape.v
            # (class TEXT), it is not by itself a failure of C17 - whether systemd still reads the user's patterns out of
            # it is what the MONITOR line (c17_check) of the same case says
            stats.setdefault("_text_diffs", []).append(
                {"engine": ENGINE, "class": "UNIT_TEXT", "input": case_input(c),
                 "impl": {"unit_file": bytes.fromhex(m.group(4)).decode("utf-8", "backslashreplace")},
                 "model": {"unit_file": bytes.fromhex(m.group(5)).decode("utf-8", "backslashreplace")},
                 "note": "extracted text_class_ok is false on the installed unit: the exclude region of its ExecStart= is not, byte for byte, the model's text for the patterns of the command line"})
            continue
        m = re.match(r"MONITOR id=(\d+) tag=\S+ clause=(\S+) pats=(\S*) env=(\S+) observed=(.*?) text=(\S+)$", line)
        if m:
            c = by_id[m.group(1)]
            hits.append({"engine": ENGINE, "clause": "C17.cli_unit", "known_class": None, "input": dict(case_input(c), environment=m.group(4), instance="dev/input/event3"),
                         "observed": {"systemd_reads": m.group(5), "unit_file": bytes.fromhex(m.group(6)).decode("utf-8", "backslashreplace")},
                         "expected": "argv = a program and its options incl. --layout-file <path> and --only-if-keyboard, then --exclude <pattern bytes> for each pattern of the command line in order, then --dev-file /dev/input/event3",
                         "note": "extracted c17_check (systemd's reading of ExecStart) rejects the installed unit file"})
            continue
        if line.startswith("SUMMARY "):
            for k, v in re.findall(r"(\w+)=(\d+)", line):
                summary[k] = summary.get(k, 0) + int(v)
    # ---- C15: the saved layout
    loaded = harness_load(ctx, [("--file", os.path.join(c["out"], "layout")) for c in acc if c["layout"] is not None])
    n_c15 = 0
    for c in acc:
        if c["layout"] is None:
            hits.append({"engine": ENGINE, "clause": "C15.cli_saved_file", "known_class": None, "input": case_input(c),
                         "observed": {"exit_code": c["meta"].get("rc"), "saved_file": "missing", "stderr": tail(c["stderr"]), "stdout": tail(c["stdout"])},
                         "expected": "/etc/totalmapper.json written", "note": "add_systemd_service did not save the layout"})
            continue
        n_c15 += 1
        got = loaded.get(os.path.join(c["out"], "layout").encode().hex())
        want = c["source"]["expected"]
        if got != want:
            hits.append({"engine": ENGINE, "clause": "C15.cli_saved_file", "known_class": None, "input": case_input(c),
                         "observed": {"load_layout_from_file(/etc/totalmapper.json)": show_load(got), "saved_file_head": tail(c["layout"][:600], 600)},
                         "expected": {"the layout the command line names": show_load(want)},
                         "note": "the layout file installed by the real binary does not reload as the layout given on the command line"})
    # ---- informational: what else the run did
    calls = {}
    for c in acc:
        for l in c["meta"].get("stub_calls") or []:
            calls[l] = calls.get(l, 0) + 1
    fam = {}
    for c in cases:
        f = c["family"].split(":")[0]
        fam[f] = fam.get(f, 0) + 1
    forms = {"sep": 0, "eq": 0}
    for c in acc:
        for x in c.get("forms") or []:
            forms[x] += 1
    distinct = set(pats_field(c["patterns"]) for c in acc if esc.nontrivial([[ord(ch) for ch in p] for p in c["patterns"]]))
    stats.update({
        "cli_add_systemd_service_runs": len(cases),
        "cli_unit_files_checked": summary.get("cases", 0),
        "cli_unit_files_equal_to_model": summary.get("validated", 0),
        "cli_unit_patterns": summary.get("patterns", 0),
        "cli_unit_pattern_scalars": summary.get("scalars", 0),
        "cli_unit_distinct_nontrivial_pattern_lists": len(distinct),
        "cli_saved_layouts_reloaded": n_c15,
        "cli_nonzero_exit_on_accepted_argv": n_exit_bad,
        "cli_unit_text_differs_outside_execstart": n_outside[0],
        "cli_installed_unit_files": count_by(str(c["meta"].get("unit_path")) for c in acc),
        "cli_installed_layout_files": count_by(str(c["meta"].get("layout_path")) for c in acc),
        "cli_cases_by_family": fam,
        "cli_exclude_spellings": {"--exclude P": forms["sep"], "--exclude=P": forms["eq"]},
        "cli_stub_invocations": calls,
        "cli_rule_files": sorted(set(str(c["meta"].get("rules_d")) for c in acc)),
        "cli_uinput_after": sorted(set(json.dumps(c["meta"].get("uinput"), sort_keys=True) for c in acc)),
        "cli_user_groups_after": sorted(set(str(c["meta"].get("user_groups")) for c in acc)),
    })
    for c in acc:
        if c["unit"] is not None and c["patterns"] and len(samples) < 2 and any(len(p) > 2 for p in c["patterns"]):
            ex = [l for l in c["unit"].decode("utf-8", "backslashreplace").split("\n") if l.startswith("ExecStart=")]
            samples.append("cli: %s -> %s" % (json.dumps(["totalmapper"] + [show_arg(a) for a in c["argv"]], ensure_ascii=True)[:300], json.dumps(ex[-1] if ex else "?")[:300]))
    return hits, stats, samples, None


# ---------------------------------------------------------------- C16: remap in a fabricated /proc, /sys, /dev/input

def names_of(text):
    return [m.group(1) for m in re.finditer(r'^N: Name="(.*?)"\s*$', text, re.M)]


def rewrite_excludes(rng, spec_path):
    """replace the scenario's exclude patterns by 1-3 patterns of which at least one is likely to hit a keyboard"""
    lines = open(spec_path, encoding="utf-8").read().split("\n")
    text = ""
    keep = []
    for l in lines:
        if l.startswith("TEXT "):
            text = bytes.fromhex(l[5:]).decode("utf-8", "replace")
        if l and not l.startswith("EXC "):
            keep.append(l)
    old = [bytes.fromhex(l[4:]).decode("utf-8", "replace") for l in lines if l.startswith("EXC ")]
    names = [n for n in names_of(text) if n]
    kb = [n for n in names if "eyboard" in n.lower() or "kbd" in n.lower()]
    likely = ["*", "*eyboard*", "?*eyboard*"] + kb + kb + [n[:max(1, len(n) // 2)] + "*" for n in kb] + ["*" + n[len(n) // 2:] for n in kb]
    comma = [n for n in kb if "," in n]       # a value delimiter in the option parser would split these
    if comma and rng.random() < 0.7:
        n = rng.choice(comma)
        pats = [rng.choice([n, n.split(",")[0] + ",*", "*," + n.split(",", 1)[1]])]
    else:
        pats = [rng.choice(likely)]
    for _ in range(rng.choice([0, 1, 1, 2])):
        k = rng.random()
        if k < 0.35 and names:
            pats.append(rng.choice(names))
        elif k < 0.6 and names:
            n = rng.choice(names)
            pats.append("*" + n[rng.randrange(0, len(n)):])
        elif k < 0.8:
            pats.append(rng.choice(["*Mouse*", "AT*", "Logitech*", "*Consumer Control", "total*", "* *", "a b", "$HOME", "%i", "x;y", "'*'", "\\*"]))
        elif old:
            pats.append(rng.choice(old))
    rng.shuffle(pats)
    out = []
    for p in pats:
        if p and not p.startswith("-") and not any(ch in p for ch in "\n\r\0") and p not in out:
            out.append(p)
    with open(spec_path, "w", encoding="utf-8") as f:
        f.write("\n".join(keep + ["EXC " + p.encode("utf-8").hex() for p in out]) + "\n")
    return out


def remap_argv(spec):
    ex = [w for p in spec.get("excludes", []) for w in ("--exclude", p)]
    return {"all_keyboards": ["totalmapper", "remap", "--default-layout", "caps-for-movement", "--all-keyboards", "--verbose"] + ex,
            "dev_file": ["totalmapper", "remap", "--default-layout", "caps-for-movement", "--only-if-keyboard", "--verbose"] + ex +
                        [w for d in spec.get("dev_file_args", []) for w in ("--dev-file", d)],
            "auto": ["totalmapper", "remap", "--default-layout", "caps-for-movement", "--auto-all-keyboards", "--verbose"] + ex,
            "list_keyboards": ["totalmapper", "list_keyboards"]}


def run_remap_groups(ctx, dirs, real_bin, listing_exe):
    def one(d):
        nsout = os.path.join(d, "ns.out")
        try:
            p = subprocess.run(["unshare", "-m", ctx["harness"], "listing-ns", "--dir", d, "--out", nsout, "--real-bin", real_bin],
                               stdout=subprocess.PIPE, stderr=subprocess.STDOUT, stdin=subprocess.DEVNULL, timeout=120 + 70 * len(glob.glob(os.path.join(d, "*.spec"))))
        except subprocess.TimeoutExpired:
            return d, None, "listing-ns timed out"
        if p.returncode != 0 or not os.path.exists(nsout):
            return d, None, "harness listing-ns failed (rc=%d): %s" % (p.returncode, p.stdout.decode("utf-8", "replace")[-300:])
        rc, out, _ = ctx["sh"]([listing_exe, "ns", d, nsout], timeout=1200)
        if rc != 0 or "NSSUMMARY" not in out:
            return d, None, "model-side ns checker failed: " + out[-300:]
        return d, out, None
    with ThreadPoolExecutor(max_workers=max(1, len(dirs))) as ex:
        return list(ex.map(one, dirs))


def spec_blocks(text):
    """the entries of a scenario text (the generator separates them by an empty line)"""
    return [b for b in text.split("\n\n") if b.strip()]


def make_rotations(base_lines, max_rot):
    """base_lines: a listing-ns scenario (TEXT/SYS/DEV/ARG/EXC lines).  Returns [(k, lines)]: the same system with the
    k-th entry of the device list rotated to the front, and, as --dev-file arguments, the node of every entry in the
    same (rotated) order followed by the scenario's own odd arguments (symlinks, '//', missing nodes).  The loop opens
    selected nodes in order and stops at the first failure, so each rotation shows whether ITS first entry is selected."""
    text, sys_nodes, args, other = "", {}, [], []
    for l in base_lines:
        t = l.split(" ")
        if t[0] == "TEXT":
            text = bytes.fromhex(t[1]).decode("utf-8", "surrogateescape")
        elif t[0] == "ARG":
            args.append(bytes.fromhex(t[1]).decode("utf-8", "surrogateescape"))
        elif t[0] in ("SYS", "DEV", "EXC"):
            other.append(l)
            if t[0] == "SYS" and len(t) > 4 and t[2] == "node":
                sys_nodes[bytes.fromhex(t[1]).decode("utf-8", "surrogateescape")] = "/dev/" + bytes.fromhex(t[4]).decode("utf-8", "surrogateescape")
    blocks = spec_blocks(text)
    out = []
    for k in range(min(len(blocks), max_rot) if blocks else 1):
        rot = blocks[k:] + blocks[:k]
        nodes = []
        for b in rot:
            m = re.search(r"^S: Sysfs=(.*)$", b, re.M)
            n = sys_nodes.get(m.group(1)) if m else None
            if n and n not in nodes:
                nodes.append(n)
        a2 = nodes + [a for a in args if a not in nodes]
        rtext = ("\n\n".join(rot) + "\n\n") if rot else text
        lines = ["TEXT " + rtext.encode("utf-8", "surrogateescape").hex()] + other + ["ARG " + a.encode("utf-8", "surrogateescape").hex() for a in a2]
        if k == 0:
            lines.append("OPT auto")
        out.append((k, lines))
    return out, len(blocks)


def open_lines(nsout):
    """{spec basename: {"RAO": [names] | None, "RDO": .., "RUO": .., "RA": [[path, excluded]] | None, "RU": ..}} from a listing-ns output"""
    res, cur = {}, None
    for line in open(nsout, encoding="utf-8", errors="replace"):
        t = line.rstrip("\n").split(" ")
        if t[0] == "NS" and len(t) > 2:
            cur = res.setdefault(os.path.basename(t[2]), {})
        elif cur is not None and t[0] in ("RAO", "RDO", "RUO", "SAO", "SDO") and len(t) > 2:
            try:
                cur[t[0]] = None if t[2] == "-" else [bytes.fromhex(x).decode("utf-8", "replace") for x in t[3:3 + int(t[2])]]
            except ValueError:
                cur[t[0]] = None
        elif cur is not None and t[0] in ("RA", "RU") and len(t) > 4:
            try:
                n = int(t[4])
                lst_ = [[bytes.fromhex(t[5 + 2 * i]).decode("utf-8", "replace"), t[6 + 2 * i] == "1"] for i in range(n)]
                cur[t[0]] = lst_ if int(t[3]) >= 0 and int(t[3]) == sum(1 for _, x in lst_ if not x) else None
            except (ValueError, IndexError):
                cur[t[0]] = None
        elif cur is not None and t[0] == "RUT" and len(t) > 2:
            cur["RUT"] = int(t[2]) if t[2].isdigit() else 0
    return res


def remap_input(spec, what, argv, extra=None):
    inp = {"kind": "remap", "what": what, "argv": argv, "device_list": spec.get("text"), "excludes": spec.get("excludes"),
           "dev_file_args": spec.get("dev_file_args"), "fabricated_sys": spec.get("sys"), "fabricated_dev": spec.get("dev"), "spec": spec.get("spec")}
    if spec.get("observation"):
        inp["observation"] = spec["observation"]
    if extra:
        inp.update(extra)
    return inp


def judge_specs(ctx, dirs, bases, real_bin, listing_exe):
    """runs listing-ns + listing_check on the prepared scenario directories and judges what the REAL BINARY did.
    bases: {base id: {"lines": base spec lines, "rots": [(k, spec basename)], "entries": n}} -> (hits, stats, error)"""
    diffs, hs, summary = [], [], {}
    opens = {}
    for d, out, err in run_remap_groups(ctx, dirs, real_bin, listing_exe):
        if err:
            return [], {}, err
        dd, hh, sm, _, nts = lst.parse_ns_out(out)
        fails = [n for n in nts if n.startswith("NSFAIL")]
        if fails:
            return [], {}, "namespace setup of listing-ns failed: " + fails[0]
        for k, v in sm.items():
            summary[k] = summary.get(k, 0) + v
        diffs += dd
        hs += hh
        opens.update(open_lines(os.path.join(d, "ns.out")))
    # the verbose log is trusted only if it parsed and agreed with the opens in EVERY scenario of the run
    diffs, hs, pol = lst.apply_log_policy(diffs, hs, summary)
    hits = []
    outside_domain = [0]
    for x in diffs:
        what = x["input"].get("what", "")
        if "real-binary" not in what:
            continue
        if str(x.get("class", "")).endswith("_OUTSIDE_DOMAIN"):
            # a listing text outside the kernel's format or a failing /sys lookup: not what C16 quantifies over
            outside_domain[0] += 1
            continue
        argv = remap_argv(x["input"])
        av = argv["list_keyboards"] if "list_keyboards" in what else argv["dev_file"] if "dev-file" in what else argv["auto"] if "auto-all" in what else argv["all_keyboards"]
        hits.append({"engine": ENGINE, "clause": "C16.cli_excludes", "known_class": None, "input": remap_input(x["input"], what, av),
                     "observed": {"real_binary": x["impl"]}, "expected": {"model": x["model"]},
                     "note": "what the real binary does (the nodes it opens; secondarily what its verbose log lists) differs from the listing model's selection for the same fabricated system and patterns"})
    for x in hs:
        if "real-binary" not in str(x["input"].get("via")):
            continue
        argv = remap_argv(x["input"])
        hits.append({"engine": ENGINE, "clause": "C16.cli_excludes", "known_class": None,
                     "input": remap_input(x["input"], x["clause"], argv["dev_file"] if "devfile" in x["clause"] else argv["all_keyboards"]),
                     "observed": x["observed"], "expected": x["expected"], "note": x.get("note", "") + " (real binary)"})
    hits.sort(key=lambda h: len(h["input"].get("device_list") or ""))
    # ---- the three ways of naming devices must open the same devices
    st = {"bases": 0, "rotations": 0, "all_vs_auto": 0, "dev_vs_auto": 0, "dev_not_comparable": {}, "opened_all": 0, "opened_dev": 0, "opened_auto": 0,
          "log_listing_compared": 0, "auto_ms_max": 0, "no_open_observation": 0}
    log_ok = (summary.get("ns_log_unparsed_real", 0) + summary.get("ns_log_disagree_real", 0)) == 0
    mhits = []
    for bid, b in sorted(bases.items()):
        r0 = opens.get(b["rots"][0][1], {}) if b["rots"] else {}
        auto = r0.get("RUO")
        st["auto_ms_max"] = max(st["auto_ms_max"], r0.get("RUT", 0))
        if auto is None:
            st["no_open_observation"] += 1
            continue
        st["bases"] += 1
        st["rotations"] += len(b["rots"])
        per = []
        u_all, u_dev, dev_seen = set(), set(), False
        for k, name in b["rots"]:
            o = opens.get(name, {})
            per.append({"rotation": k, "all_keyboards_opens": o.get("RAO"), "dev_file_opens": o.get("RDO")})
            u_all |= set(o.get("RAO") or [])
            if o.get("RDO") is not None:
                dev_seen = True
                u_dev |= set(o["RDO"])
        complete = len(b["rots"]) >= b["entries"]
        spec = lst.read_spec(b["path0"])
        argv = remap_argv(spec)
        st["opened_all"] += len(u_all); st["opened_dev"] += len(u_dev); st["opened_auto"] += len(set(auto))

        def hit(what, note, basis="open"):
            mhits.append({"engine": ENGINE, "clause": "C16.cli_modes_agree", "known_class": None, "basis": basis,
                          "input": remap_input(spec, what, {"all_keyboards": argv["all_keyboards"], "dev_file": argv["dev_file"], "auto_all_keyboards": argv["auto"]},
                                               {"base_spec": b["lines"], "rotations": len(b["rots"]), "entries": b["entries"]}),
                          "observed": {"opened_by_all_keyboards_over_the_rotations": sorted(u_all), "opened_by_auto_all_keyboards": sorted(set(auto)),
                                       "opened_by_dev_file_over_the_rotations": sorted(u_dev) if dev_seen else None, "per_rotation": per},
                          "expected": "the same set of device nodes (each rotation puts another entry first; --all-keyboards and --dev-file open the first selected node, --auto-all-keyboards all of them)",
                          "note": note})
        st["all_vs_auto"] += 1
        # each rotation puts another entry first; when the program lists devices in an order of its own (C16 does not
        # constrain the order) the rotations always open the same node and say nothing about the others
        steering = len(u_all) >= 2 or len(set(auto)) <= 1
        if complete and not steering and u_all <= set(auto):
            st["rotations_not_steering"] = st.get("rotations_not_steering", 0) + 1
        if not (u_all <= set(auto)) or (complete and steering and u_all != set(auto)) or (bool(u_all) != bool(set(auto)) and complete):
            hit("all-keyboards vs auto-all-keyboards", "--all-keyboards (over the rotations of the device list) and --auto-all-keyboards open different devices on the same system with the same patterns")
        why = None
        sysfs = re.findall(r"^S: Sysfs=(.*)$", spec.get("text", ""), re.M)
        if not dev_seen:
            why = "no --dev-file run"
        elif any(len(x) > 1 and x[1] in ("missing", "nouevent") for x in spec.get("sys", [])):
            why = "a /sys lookup fails (list_input_devices looks up every device, list_keyboards only keyboards)"
        elif len(set(sysfs)) != len(sysfs) or b["entries"] != len(sysfs):
            why = "two entries share a sysfs path or an entry has none"
        if why:
            st["dev_not_comparable"][why] = st["dev_not_comparable"].get(why, 0) + 1
        else:
            st["dev_vs_auto"] += 1
            if not (u_dev <= set(auto)) or (complete and u_dev != set(auto)):
                hit("dev-file vs auto-all-keyboards", "--dev-file <every node> --only-if-keyboard (over the rotations) and --auto-all-keyboards open different devices on the same system with the same patterns")
        # secondary: the two logs list the same devices with the same flags (only when every log of the run was usable)
        if log_ok and r0.get("RA") is not None and r0.get("RU") is not None:
            st["log_listing_compared"] += 1
            if r0["RA"] != r0["RU"]:
                mhits.append({"engine": ENGINE, "clause": "C16.cli_modes_agree", "known_class": None, "basis": "log",
                              "input": remap_input(spec, "all-keyboards vs auto-all-keyboards (verbose log)", {"all_keyboards": argv["all_keyboards"], "auto_all_keyboards": argv["auto"]},
                                                   {"base_spec": b["lines"], "rotations": len(b["rots"]), "entries": b["entries"]}),
                              "observed": {"all_keyboards_lists": r0["RA"], "auto_all_keyboards_first_round_lists": r0["RU"]},
                              "expected": "the same devices listed, the same ones flagged (excluded)",
                              "note": "the verbose logs of --all-keyboards and --auto-all-keyboards (both well-formed and consistent with what the runs opened) flag different devices"})
    mhits.sort(key=lambda h: len(h["input"].get("device_list") or ""))
    stats = {"cli_remap_scenarios": len(bases), "cli_remap_runs_of_listing_ns": summary.get("ns_real_binary_scenarios", 0),
             "cli_remap_rotations": sum(len(b["rots"]) for b in bases.values()),
             "cli_remap_comparisons": summary.get("ns_comparisons", 0) + st["all_vs_auto"] + st["dev_vs_auto"] + st["log_listing_compared"],
             "cli_remap_open_observations": summary.get("ns_open_observations", 0),
             "cli_remap_nodes_opened": summary.get("ns_selected_nodes", 0),
             "cli_verbose_log_used": pol["verbose_log_observations_used"], "cli_verbose_log_unparsed": pol["verbose_log_unparsed"],
             "cli_verbose_log_contradicting_the_opens": pol["verbose_log_contradicting_the_opens"],
             "cli_log_based_judgements_dropped": pol["log_based_judgements_dropped"],
             "cli_list_keyboards_output_unparsed": summary.get("ns_list_output_unparsed", 0),
             "cli_modes_scenarios": st["bases"], "cli_modes_all_vs_auto": st["all_vs_auto"], "cli_modes_dev_file_vs_auto": st["dev_vs_auto"],
             "cli_modes_dev_file_not_comparable": st["dev_not_comparable"], "cli_modes_nodes_opened": {"all_keyboards_over_rotations": st["opened_all"],
                                                                                                     "dev_file_over_rotations": st["opened_dev"], "auto_all_keyboards": st["opened_auto"]},
             "cli_modes_log_listings_compared": st["log_listing_compared"], "cli_modes_auto_ms_max": st["auto_ms_max"],
             "cli_modes_without_open_observation": st["no_open_observation"]}
    return hits + mhits, stats, None


def prepare_remap(work, bases_lines, max_rot):
    """writes the rotated scenarios into up to 8 group directories -> (dirs, bases)"""
    total = sum(min(max_rot, max(1, len(spec_blocks(next((bytes.fromhex(l[5:]).decode("utf-8", "replace") for l in ls if l.startswith("TEXT ")), ""))))) for ls in bases_lines)
    ng = max(1, min(8, total))
    dirs = []
    for g in range(ng):
        d = os.path.join(work, "c16", "g%02d" % g)
        os.makedirs(d, exist_ok=True)
        dirs.append(d)
    bases, j = {}, 0
    for i, ls in enumerate(bases_lines):
        rots, n_ent = make_rotations(ls, max_rot)
        b = {"lines": ls, "rots": [], "entries": n_ent}
        for k, lines in rots:
            name = "%04d-r%d.spec" % (i, k)
            path = os.path.join(dirs[j % ng], name)
            j += 1
            open(path, "w", encoding="ascii").write("\n".join(lines) + "\n")
            b["rots"].append((k, name))
            if k == 0:
                b["path0"] = path
        bases["%04d" % i] = b
    return dirs, bases


def judge_remap(ctx, work, rng, seed, n_scen, max_rot, real_bin, listing_exe):
    """-> (hits, stats, samples, error)"""
    gdir = os.path.join(work, "c16gen")
    rc, out, _ = ctx["sh"]([ctx["harness"], "listing-gen", "--out", gdir, "--seed", str(seed), "--tier", "quick", "--repo", ctx["repo"], "--shards", "1",
                           "--texts", "0", "--excl", "0", "--scenarios", str(n_scen), "--sweep-hi", "1"], timeout=600)
    specs = sorted(glob.glob(os.path.join(gdir, "ns", "*.spec")))
    if rc != 0 or not specs:
        return [], {}, [], "harness listing-gen failed (rc=%d): %s" % (rc, out[-300:])
    n_pats, bases_lines = 0, []
    for s in specs:
        n_pats += len(rewrite_excludes(rng, s))
        bases_lines.append([l for l in open(s, encoding="utf-8").read().split("\n") if l])
    dirs, bases = prepare_remap(work, bases_lines, max_rot)
    hits, stats, err = judge_specs(ctx, dirs, bases, real_bin, listing_exe)
    if err:
        return [], {}, [], err
    stats["cli_remap_exclude_patterns"] = n_pats
    return hits, stats, [], None


# ---------------------------------------------------------------- entry points

def models(ctx):
    with ctx["Lock"]("build"):
        ok1, e1 = ctx["build_model"]("escape")
        ok2, e2 = ctx["build_model"]("listing")
    if not ok1:
        return None, None, str(e1)
    if not ok2:
        return None, None, str(e2)
    return e1, e2, None


def run(ctx):
    here, build, sh = ctx["here"], ctx["build"], ctx["sh"]
    tier, seed, budget = ctx["tier"], ctx["seed"], ctx.get("budget", "normal")
    res = {"engine": ENGINE, "ok": False, "error": None, "diffs": [], "hits": [], "stats": {}, "cache_hit": False}
    rc, out, _ = sh("unshare -m true", timeout=30)
    if rc != 0:
        res.update({"ok": True, "stats": {"cli_namespace_run": "skipped: `unshare -m true` failed (rc=%d): %s" % (rc, out.strip()[-120:]),
                                          "cli_add_systemd_service_runs": 0, "cli_remap_scenarios": 0}})
        return res
    eng = os.path.join(here, "tools", "engines")
    key = ctx["tree_hash"]([os.path.join(ctx["repo"], "src"), os.path.join(ctx["repo"], "Cargo.toml"), os.path.join(ctx["repo"], "README.md"),
                            os.path.join(ctx["repo"], "working"),
                            os.path.join(here, "harness", "src"), os.path.join(here, "ocaml", "escape_check.ml"), os.path.join(here, "ocaml", "listing_check.ml"),
                            os.path.join(here, "coq", "theories", "Escape.v"), os.path.join(here, "coq", "theories", "Systemd.v"),
                            os.path.join(here, "coq", "theories", "EscapeSpec.v"), os.path.join(here, "coq", "theories", "Listing.v"),
                            os.path.join(here, "coq", "gen", "KeyTable.v"),
                            os.path.join(here, "coq", "extract", "Extract_escape.v"), os.path.join(here, "coq", "extract", "Extract_listing.v"),
                            os.path.join(eng, "cli.py"), os.path.join(eng, "_cli_ns.py"), os.path.join(eng, "_realbin.py"),
                            os.path.join(eng, "escape.py"), os.path.join(eng, "listing.py")]) + "-%s-%d-%s" % (tier, seed, budget)
    cdir = os.path.join(build, "cache", key)
    cfile = os.path.join(cdir, "cli.json")
    with ctx["Lock"]("engine-cli"):
        if os.path.exists(cfile):
            r = json.load(open(cfile))
            r["cache_hit"] = True
            return r
        t0 = time.time()

        work = os.path.join(build, "work", "cli-%s" % key)

        def done(err=None):
            res["error"] = err
            res["wall_s"] = round(time.time() - t0, 1)
            shutil.rmtree(work, ignore_errors=True)
            return res
        escape_exe, listing_exe, err = models(ctx)
        if err:
            return done("model does not build: " + err)
        tb = time.time()
        real_bin, err = _realbin.build_real_binary(ctx)
        if not real_bin:
            return done("the real binary does not build from the working tree (cargo build --offline, RUSTFLAGS empty): " + err)
        t_build = time.time() - tb
        shutil.rmtree(work, ignore_errors=True)
        os.makedirs(work)
        rng = random.Random("cli-%d-%s" % (seed, budget))
        thorough = tier == "thorough"
        mult = 5 if budget == "search" else 1
        sources, invalid, notes = layout_sources(ctx, work, rng, (60 if thorough else 22) * (2 if mult > 1 else 1), real_bin)
        if not sources:
            return done("no layout source loads (tm-harness cli-load)")
        cases = build_cases(ctx, rng, sources, invalid, tier, budget)
        ta = time.time()
        setup, err = run_in_namespace(ctx, work, real_bin, cases)
        if err:
            return done(err)
        # a run that hit the 10 s limit is run once more, alone (the real adduser/groupadd/usermod occasionally stall when
        # the machine is busy); only a second time-out is judged
        slow, slow_note = [], None
        for c in cases:
            try:
                m = json.load(open(os.path.join(c["out"], "meta.json")))
                if m.get("timeout"):
                    slow.append(c)
                    slow_note = slow_note or m.get("timeout_processes")
            except (OSError, ValueError):
                pass
        if slow and len(slow) <= 8:
            _, err = run_in_namespace(ctx, work, real_bin, slow, tag="retry")
            if err:
                return done(err)
        hits, stats, samples, err = judge_add(ctx, work, cases, escape_exe)
        if err:
            return done(err)
        t_add = time.time() - ta
        tr = time.time()
        n_scen = (120 if thorough else 6) * mult
        rhits, rstats, _, err = judge_remap(ctx, work, rng, seed + (7919 if mult > 1 else 0), n_scen, 8 if thorough else 6, real_bin, listing_exe)
        if err:
            return done(err)
        t_remap = time.time() - tr
        hits.sort(key=lambda h: (len(h["input"].get("argv_hex", [])), sum(len(a) for a in h["input"].get("argv_hex", []))))

        def trim(items, n):
            out, seen = [], {}
            for x in items:
                k = x["clause"]
                if seen.get(k, 0) < n:
                    seen[k] = seen.get(k, 0) + 1
                    out.append(x)
            return out
        evaluations = stats.get("cli_unit_files_checked", 0) + stats.get("cli_saved_layouts_reloaded", 0) + rstats.get("cli_remap_comparisons", 0)
        stats.update(rstats)
        stats.update(notes)
        stats["cli_runs_repeated_after_a_timeout"] = len(slow)
        if slow_note:
            stats["cli_processes_at_first_timeout"] = slow_note
        stats.update({
            "cli_namespace_run": "ran: %d add_systemd_service runs and %d remap scenarios of the real binary in private mount namespaces" % (
                stats.get("cli_add_systemd_service_runs", 0), rstats.get("cli_remap_scenarios", 0)),
            "cli_stubbed_in_namespace": setup,
            "cli_evaluations": evaluations,
            "evaluations": evaluations,
            "traces_validated_against_impl": evaluations,
            "cli_hits_total": len(hits) + len(rhits),
            "cli_seconds": {"real_binary_build_or_lookup": round(t_build, 1), "add_systemd_service": round(t_add, 1), "remap": round(t_remap, 1)},
            "samples": samples,
        })
        tdiffs = stats.pop("_text_diffs", [])
        stats["cli_unit_texts_differing_from_the_model_in_the_exclude_region"] = len(tdiffs)
        res.update({"ok": True, "diffs": tdiffs[:10], "hits": trim(hits, 10) + trim(rhits, 10), "stats": stats})
        res["wall_s"] = round(time.time() - t0, 1)
        shutil.rmtree(work, ignore_errors=True)
        os.makedirs(cdir, exist_ok=True)
        json.dump(res, open(cfile, "w"))
        return res


def replay(ctx, rp):
    """re-run a recorded cli case: the recorded argv through the real binary in a fresh namespace, and the same judgement"""
    inp = rp.get("input") or {}
    print("recorded: clause=%s kind=%s" % (rp.get("clause"), inp.get("kind")))
    if inp.get("kind") not in ("add_systemd_service", "remap"):
        print("replay names no concrete cli input (kind=%s): %s" % (rp.get("kind"), rp.get("broken")))
        return 0
    rc, out, _ = ctx["sh"]("unshare -m true", timeout=30)
    if rc != 0:
        print("cannot replay: `unshare -m true` fails here (%s)" % out.strip()[-100:])
        return 0
    ctx = dict(ctx)
    escape_exe, listing_exe, err = models(ctx)
    real_bin, err2 = _realbin.build_real_binary(ctx)
    if err or not real_bin:
        print("cannot replay: %s" % (err or "the real binary does not build: " + err2))
        return 0
    work = os.path.join(ctx["build"], "work", "cli-replay")
    shutil.rmtree(work, ignore_errors=True)
    os.makedirs(work)
    print("argv: %s" % json.dumps(inp.get("argv"), ensure_ascii=True))
    created = []
    if inp["kind"] == "add_systemd_service":
        for path, content in (inp.get("files") or {}).items():
            if not os.path.exists(path):
                d = os.path.dirname(path)
                while d and not os.path.exists(d):
                    created.append(d)
                    d = os.path.dirname(d)
                os.makedirs(os.path.dirname(path), exist_ok=True)
                open(path, "w", encoding="utf-8").write(content)
                created.insert(0, path)
        lay = inp.get("layout") or {}
        src = {"kind": "builtin", "name": lay["builtin"]} if "builtin" in lay else {"kind": "file", "path": lay.get("file", "")}
        loaded = harness_load(ctx, [("--builtin", src["name"]) if src["kind"] == "builtin" else ("--file", src["path"])])
        src["expected"] = loaded.get((src["name"] if src["kind"] == "builtin" else src["path"]).encode().hex())
        c = {"id": "replay", "kind": "add_systemd_service", "family": inp.get("family", "replay"), "patterns": inp.get("patterns") or [], "forms": [],
             "source": src, "argv": [bytes.fromhex(a) for a in inp["argv_hex"]], "pre": inp.get("preconditions") or {}, "expect": "accepted"}
        setup, err = run_in_namespace(ctx, work, real_bin, [c])
        if err:
            print("namespace run failed: " + err)
            return 0
        hits, stats, _, err = judge_add(ctx, work, [c], escape_exe)
        print("exit code: %s   stub calls: %s" % (c["meta"].get("rc"), c["meta"].get("stub_calls")))
        print("stdout: %s\nstderr: %s" % (tail(c.get("stdout")), tail(c.get("stderr"))))
        print("installed unit file:\n%s" % (c["unit"].decode("utf-8", "backslashreplace") if c.get("unit") is not None else "(missing)"))
        print("installed /etc/totalmapper.json reloads as: %s" % json.dumps(show_load(harness_load(ctx, [("--file", os.path.join(c["out"], "layout"))]).get(
            os.path.join(c["out"], "layout").encode().hex())))[:600])
        print("layout named on the command line:       %s" % json.dumps(show_load(src["expected"]))[:600])
        if err:
            print("judgement failed: " + err)
        for h in hits:
            print("%s fails: observed=%s expected=%s" % (h["clause"], json.dumps(h["observed"], ensure_ascii=True)[:900], json.dumps(h["expected"], ensure_ascii=True)[:900]))
        print("REPRODUCED" if hits else "NOT REPRODUCED on the current tree")
    else:
        if inp.get("base_spec"):
            dirs, bases = prepare_remap(work, [inp["base_spec"]], 8)
        else:
            d = os.path.join(work, "c16", "g00")
            os.makedirs(d)
            path = os.path.join(d, "0000-r0.spec")
            open(path, "w", encoding="utf-8").write("\n".join(inp.get("spec") or []) + "\n")
            dirs, bases = [d], {"0000": {"lines": inp.get("spec") or [], "rots": [(0, "0000-r0.spec")], "entries": 1 << 30, "path0": path}}
        print("device list:\n%s" % inp.get("device_list"))
        print("--exclude: %s   --dev-file: %s" % (json.dumps(inp.get("excludes")), json.dumps(inp.get("dev_file_args"))))
        hits, stats, err = judge_specs(ctx, dirs, bases, real_bin, listing_exe)
        if err:
            print("run failed: " + err)
        for h in hits:
            print("HIT %s (%s; observation: %s): observed=%s expected=%s" % (h["clause"], h["input"].get("what"), h.get("basis") or h["input"].get("observation"),
                                                                          json.dumps(h["observed"], ensure_ascii=True)[:900], json.dumps(h["expected"], ensure_ascii=True)[:300]))
        if not err:
            print("run: %s" % json.dumps({k: v for k, v in stats.items() if not isinstance(v, dict) or v}))
        print("REPRODUCED" if hits else "NOT REPRODUCED on the current tree")
    print("recorded observed: %s" % json.dumps(rp.get("observed"), ensure_ascii=True)[:600])
    shutil.rmtree(work, ignore_errors=True)
    for x in created:        # the file first, then the directories made for it, innermost first
        try:
            os.remove(x) if os.path.isfile(x) else os.rmdir(x)
        except OSError:
            pass
    return 0
