"""listing engine (property C16): keyboard selection.

Correspondence between the real /proc/bus/input/devices extractors (through the
cfg(ellbur_totalmapper_verif) hooks) and the extracted Coq model Listing.v on
seeded device texts assembled from a library of realistic entries; the extracted
checkers local_ok / agree_ok / exclude_agree_ok applied to the REAL outputs; and,
when `unshare -m` works, the real selection code (public functions of the
working tree called by the harness, plus in the thorough tier the real binary
built from /repo with the guard off) run in a private mount namespace over a
fabricated /proc/bus/input/devices, /sys/devices and /dev/input, compared with
the model's selection layer and with the extracted specifications.  There the
primary observation of a selection run is which fabricated nodes it OPENS
(inotify); what its verbose log says is secondary (apply_log_policy: used only
if it parsed and agreed with the opens in every scenario of the run).
See harness/src/engines/listing.rs and ocaml/listing_check.ml."""
import os, json, re, time, glob, shutil

NEEDS_MODEL = True
NEEDS_HARNESS = True
ENGINE = "listing"


def unhex(h):
    if h in ("-", "~", ""):
        return ""
    try:
        return bytes.fromhex(h).decode("utf-8", "replace")
    except ValueError:
        return "<bad hex %s>" % h[:40]


def dec_result(enc, arity):
    """'P' | 'E' | 'O n f..' -> readable"""
    t = enc.split(" ")
    if t[0] == "P":
        return "PANIC"
    if t[0] == "E":
        return "IO-ERROR"
    if t[0] != "O":
        return enc
    out, i = [], 2
    while i + arity <= len(t):
        item = [unhex(t[i]), unhex(t[i + 1])]
        if arity == 3:
            item.append(t[i + 2] == "1")
        out.append(item)
        i += arity
    return out


def dec_selection(enc):
    """'count n path flag ..' -> readable"""
    t = enc.split(" ")
    try:
        return {"remapping_count": int(t[0]), "paths": [[unhex(t[2 + 2 * i]), t[3 + 2 * i]] for i in range(int(t[1]))]}
    except (ValueError, IndexError):
        return enc


def kv(line):
    """key=value tokens of a checker line (values have no spaces except the last groups handled by callers)"""
    return dict(re.findall(r"(\w+)=(\S*)", line))


def read_spec(path):
    d = {"text": "", "sys": [], "dev": [], "dev_file_args": [], "excludes": [], "spec": []}
    try:
        for line in open(path, encoding="utf-8"):
            line = line.rstrip("\n")
            d["spec"].append(line)
            t = line.split(" ")
            if t[0] == "TEXT":
                d["text"] = unhex(t[1]); d["text_hex"] = t[1]
            elif t[0] == "SYS":
                d["sys"].append([unhex(t[1])] + t[2:3] + [unhex(x) if i == 1 else x for i, x in enumerate(t[3:])])
            elif t[0] == "DEV":
                d["dev"].append([unhex(t[1]), t[2]] + [unhex(x) for x in t[3:]])
            elif t[0] == "ARG":
                d["dev_file_args"].append(unhex(t[1]))
            elif t[0] == "EXC":
                d["excludes"].append(unhex(t[1]))
    except OSError:
        pass
    return d


def parse_cases_out(text):
    diffs, hits, summary, samples, failed = [], [], {}, [], []
    for line in text.split("\n"):
        if line.startswith("DIFF "):
            f = kv(line)
            cls = f.get("class")
            m = re.search(r" impl=(.*?) model=(.*)$", line)
            impl, model = (m.group(1), m.group(2)) if m else ("", "")
            if cls in ("KBD", "DEVS", "KBD_OUTSIDE_DOMAIN", "DEVS_OUTSIDE_DOMAIN", "DEVS_NONKEYBOARD"):
                ar = 2 if cls.startswith("KBD") else 3
                diffs.append({"engine": ENGINE, "class": cls,
                              "input": {"family": f.get("family"), "text": unhex(f.get("text", "")), "text_hex": f.get("text", "")},
                              "impl": dec_result(impl, ar), "model": dec_result(model, ar)})
            else:
                diffs.append({"engine": ENGINE, "class": cls,
                              "input": {"fn": f.get("fn"), "names": [unhex(x) for x in f.get("names", "").split(",")],
                                        "patterns": [unhex(x) for x in f.get("patterns", "").split(",") if x]},
                              "impl": dec_result(impl, 2), "model": dec_result(model, 2)})
        elif line.startswith("HIT "):
            f = kv(line)
            m = re.search(r" observed=(.*?) expected=(.*)$", line)
            obs, exp = (m.group(1), m.group(2)) if m else ("", "")
            clause = f.get("clause", "")
            if clause == "C16.exclude_agree":
                inp = {"names": [unhex(x) for x in f.get("names", "").split(",")],
                       "patterns": [unhex(x) for x in f.get("patterns", "").split(",") if x]}
                hits.append({"engine": ENGINE, "clause": clause, "input": inp, "known_class": None,
                             "observed": {"flag_excluded_input_devices": dec_result(obs, 2)},
                             "expected": {"flag_excluded": dec_result(exp, 2)},
                             "note": "the two exclusion functions flag the same names differently"})
            else:
                ar = 2 if clause in ("C16.local.kbd", "C16.agree") else 3
                note = {"C16.local.kbd": "extract_keyboards(text) differs from the concatenation of extract_keyboards(entry) over the text's own entries",
                        "C16.local.dev": "extract_input_devices(text) differs from the concatenation of extract_input_devices(entry) over the text's own entries",
                        "C16.agree": "extract_keyboards(text) differs from the keyboards of extract_input_devices(text)"}.get(clause, "")
                hits.append({"engine": ENGINE, "clause": clause, "known_class": None,
                             "input": {"family": f.get("family"), "text": unhex(f.get("text", "")), "text_hex": f.get("text", "")},
                             "observed": dec_result(obs, ar), "expected": dec_result(exp, ar), "note": note})
        elif line.startswith("SUMMARY "):
            for k, v in re.findall(r"(\w+)=(\d+)", line):
                summary[k] = summary.get(k, 0) + int(v)
        elif line.startswith("SAMPLE "):
            f = kv(line)
            m = re.search(r" kbd=(.*?) dev=(.*)$", line)
            samples.append({"family": f.get("family"), "text": unhex(f.get("text", "")),
                            "extract_keyboards": dec_result(m.group(1), 2) if m else None,
                            "extract_input_devices": dec_result(m.group(2), 3) if m else None})
        elif line.startswith("CHECKER-FAILED") or line.startswith("Fatal error") or "exception" in line.lower():
            failed.append(line[:300])
    return diffs, hits, summary, samples, failed


def parse_ns_out(text):
    diffs, hits, summary, samples, notes = [], [], {}, [], []
    for line in text.split("\n"):
        if line.startswith("DIFF "):
            f = kv(line)
            m = re.search(r" impl=(.*?) model=(.*)$", line)
            impl, model = (m.group(1), m.group(2)) if m else ("", "")
            what = f.get("what", "")
            if what.endswith("list_keyboards") and "real-binary" not in what:
                di, dm = dec_result(impl, 2), dec_result(model, 2)
            elif what.endswith("list_input_devices"):
                di, dm = dec_result(impl, 3), dec_result(model, 3)
            elif "real-binary:list_keyboards" in what:
                di, dm = [unhex(x) for x in impl.split(",")], [unhex(x) for x in model.split(",")]
            elif what.endswith((":opens-first", ":opens-all")):
                # observed: names of the nodes of /dev/input the run opened; model: the selected nodes that exist, in order
                # (opens-first: only selected nodes may be opened and the first one must be; opens-all: exactly these)
                di = {"opened_nodes": [unhex(x) for x in impl.split(",") if x != "-"]}
                dm = {"selected_existing_nodes_in_order": [unhex(x) for x in model.split(",") if x != "-"]}
            else:
                di, dm = dec_selection(impl), dec_selection(model)
            inp = read_spec(f.get("scenario", ""))
            inp["what"] = what
            inp["observation"] = {"open": "which nodes the run opened (inotify)", "log": "the verbose log", "value": "return value of the public function",
                                  "listout": "stdout of list_keyboards"}.get(f.get("basis"), f.get("basis"))
            diffs.append({"engine": ENGINE, "class": f.get("class") or "SELECT", "basis": f.get("basis"), "input": inp, "impl": di, "model": dm})
        elif line.startswith("HIT "):
            f = kv(line)
            m = re.search(r" observed=(.*?) expected=(.*)$", line)
            obs, exp = (m.group(1), m.group(2)) if m else ("", "")
            inp = read_spec(f.get("scenario", ""))
            inp["via"] = f.get("engine")

            def paths(x):
                pre = ""
                if ":" in x:
                    pre, x = x.split(":", 1)
                    pre += ":"
                return pre + ",".join(unhex(p) for p in x.split(",") if p)
            clause = f.get("clause", "")
            note = {"C16.virtual": "a device whose sysfs path lies under /devices/virtual/input/ was listed/selected",
                    "C16.select_all": "--all-keyboards did not select exactly the keyboard-like, non-virtual, non-excluded devices that have a node",
                    "C16.select_devfile": "--dev-file .. --only-if-keyboard did not select exactly the given nodes that are such devices"}.get(clause, "")
            inp["observation"] = {"open": "which nodes the run opened (inotify)", "log": "the verbose log"}.get(f.get("basis"), f.get("basis"))
            hits.append({"engine": ENGINE, "clause": clause, "known_class": None, "basis": f.get("basis"), "input": inp,
                         "observed": paths(obs), "expected": exp if clause == "C16.virtual" else paths(exp), "note": note})
        elif line.startswith("NSSUMMARY "):
            for k, v in re.findall(r"(\w+)=(\d+)", line):
                summary[k] = summary.get(k, 0) + int(v)
        elif line.startswith("NSSAMPLE "):
            f = kv(line)
            s = read_spec(f.get("scenario", ""))
            s.pop("spec", None); s.pop("text_hex", None)
            m = re.search(r" all_keyboards=(.*?) dev_file=(.*)$", line)
            if m:
                s["all_keyboards"] = dec_selection(m.group(1)); s["dev_file_only_if_keyboard"] = dec_selection(m.group(2))
            samples.append(s)
        elif line.startswith("NSFAIL") or line.startswith("NOTE") or line.startswith("Fatal error"):
            notes.append(line[:300])
    return diffs, hits, summary, samples, notes


def apply_log_policy(diffs, hits, summary):
    """The verbose log is a SECONDARY observation: if, anywhere in the run, the log of the harness probes (resp. of the
    real binary) did not have the expected shape or contradicted what the run opened, every judgement that rests on that
    log is dropped (reworded messages are not a property violation).  Returns (diffs, hits, note)."""
    bad_probe = summary.get("ns_log_unparsed_probe", 0) + summary.get("ns_log_disagree_probe", 0)
    bad_real = summary.get("ns_log_unparsed_real", 0) + summary.get("ns_log_disagree_real", 0)

    def keep(x, who):
        if x.get("basis") != "log":
            return True
        return (bad_real if "real-binary" in str(who) else bad_probe) == 0
    d2 = [x for x in diffs if keep(x, x["input"].get("what"))]
    h2 = [x for x in hits if keep(x, x["input"].get("via"))]
    note = {"verbose_log_observations_used": summary.get("ns_log_used", 0) if not (bad_probe or bad_real) else "partly or not at all (see below)",
            "verbose_log_unparsed": summary.get("ns_log_unparsed_probe", 0) + summary.get("ns_log_unparsed_real", 0),
            "verbose_log_contradicting_the_opens": summary.get("ns_log_disagree_probe", 0) + summary.get("ns_log_disagree_real", 0),
            "log_based_judgements_dropped": (len(diffs) - len(d2)) + (len(hits) - len(h2)),
            "open_observations": summary.get("ns_open_observations", 0)}
    return d2, h2, note


def build_real_binary(ctx):
    """the real binary, from the working tree, WITHOUT the verification cfg (shared with the cli engine)"""
    from engines import _realbin
    return _realbin.build_real_binary(ctx)


def namespace_run(ctx, work, tier, res_stats):
    """returns (diffs, hits, summary, samples, error)"""
    sh = ctx["sh"]
    rc, out, _ = sh("unshare -m true", timeout=30)
    if rc != 0:
        res_stats["namespace_run"] = "skipped: `unshare -m true` failed (rc=%d): %s" % (rc, out.strip()[-120:])
        return [], [], {}, [], None
    real_bin = None
    if tier == "thorough":
        real_bin, err = build_real_binary(ctx)
        if not real_bin:
            res_stats["namespace_real_binary"] = "skipped: the real binary does not build: " + err
    nsout = os.path.join(work, "ns.out")
    cmd = "unshare -m %s listing-ns --dir %s --out %s" % (ctx["harness"], os.path.join(work, "ns"), nsout)
    if real_bin:
        cmd += " --real-bin " + real_bin
    rc, out, _ = sh(cmd, timeout=3000)
    if rc != 0 or not os.path.exists(nsout):
        return [], [], {}, [], "harness listing-ns failed (rc=%d): %s" % (rc, out[-300:])
    rc, out2, _ = sh("%s ns %s %s" % (ctx["model_exe"], os.path.join(work, "ns"), nsout), timeout=3000)
    if rc != 0 or "NSSUMMARY" not in out2:
        return [], [], {}, [], "model-side ns checker failed: " + out2[-400:]
    diffs, hits, summary, samples, notes = parse_ns_out(out2)
    diffs, hits, res_stats["namespace_observations"] = apply_log_policy(diffs, hits, summary)
    fails = [n for n in notes if n.startswith("NSFAIL")]
    if fails:
        res_stats["namespace_run"] = "skipped: " + fails[0]
    else:
        res_stats["namespace_run"] = "ran: %d scenarios in a private mount namespace (public listing/remapping functions%s)" % (
            summary.get("ns_scenarios", 0), " + real binary" if real_bin else "; real binary only in the thorough tier")
    if [n for n in notes if n.startswith("NOTE")]:
        res_stats["namespace_notes"] = notes[:3]
    return diffs, hits, summary, samples, None


def run(ctx):
    here, build, sh = ctx["here"], ctx["build"], ctx["sh"]
    tier, seed, budget = ctx["tier"], ctx["seed"], ctx.get("budget", "normal")
    key = ctx["tree_hash"]([os.path.join(ctx["repo"], "src"), os.path.join(ctx["repo"], "Cargo.toml"),
                            os.path.join(here, "harness", "src"), os.path.join(here, "ocaml", "listing_check.ml"),
                            os.path.join(here, "coq", "theories", "Listing.v"), os.path.join(here, "coq", "gen", "KeyTable.v"),
                            os.path.join(here, "coq", "extract", "Extract_listing.v"),
                            os.path.join(here, "tools", "engines", "listing.py")]) + "-%s-%d-%s" % (tier, seed, budget)
    cdir = os.path.join(build, "cache", key)
    cfile = os.path.join(cdir, "listing.json")
    with ctx["Lock"]("engine-listing"):
        if os.path.exists(cfile):
            r = json.load(open(cfile))
            r["cache_hit"] = True
            return r
        t0 = time.time()
        work = os.path.join(build, "work", "listing-%s" % key)
        shutil.rmtree(work, ignore_errors=True)
        os.makedirs(work)
        res = {"engine": ENGINE, "ok": False, "error": None, "diffs": [], "hits": [], "stats": {}, "cache_hit": False}
        extra = ""
        if budget == "search":
            # a bigger, differently seeded family to look for a concrete failing input
            extra = " --texts %d --excl %d --scenarios %d" % ((200000, 10000, 600) if tier == "thorough" else (40000, 2000, 120))
            seed = seed + 7919
        cmd = "%s listing-gen --out %s --seed %d --tier %s --repo %s --shards 16%s" % (ctx["harness"], work, seed, tier, ctx["repo"], extra)
        rc, out, _ = sh(cmd, timeout=3000)
        if rc != 0 or "GEN " not in out:
            res["error"] = "harness listing-gen failed (rc=%d): %s" % (rc, out[-500:])
            return res
        gen_line = [l for l in out.split("\n") if l.startswith("GEN ")][-1]
        gen = {k: int(v) for k, v in re.findall(r"(\w+)=(\d+)", gen_line)}
        if gen.get("captured_entries", 0) == 0:
            res["error"] = "the captured device list of src/example_hardware.rs could not be parsed out of the source"
            return res
        entries_flag = " --entries"
        rc, out2, _ = sh("ls %s/cases_*.txt | xargs -P16 -I{} sh -c '%s cases {}%s > {}.out 2>&1 || echo CHECKER-FAILED {} >> {}.out'" % (
            work, ctx["model_exe"], entries_flag), timeout=3000)
        text = ""
        for f in sorted(glob.glob(os.path.join(work, "cases_*.out"))):
            text += open(f, encoding="utf-8", errors="replace").read()
        diffs, hits, summary, samples, failed = parse_cases_out(text)
        if failed or "SUMMARY" not in text:
            res["error"] = "model-side checker failed: " + (failed[0] if failed else text[-400:])
            shutil.rmtree(work, ignore_errors=True)
            return res
        stats = {}
        nd, nh, nsum, nsamples, nerr = namespace_run(ctx, work, tier, stats)
        if nerr:
            res["error"] = nerr
            shutil.rmtree(work, ignore_errors=True)
            return res
        diffs += nd
        hits += nh

        def size(x):
            i = x.get("input", {})
            return len(i.get("text_hex", "")) + 4 * len(i.get("spec", []))
        diffs.sort(key=size)
        hits.sort(key=size)
        # keep the smallest inputs, but at least one per class / clause
        def trim(items, keyf, n):
            out, seen = [], {}
            for x in items:
                k = keyf(x)
                if seen.get(k, 0) < n:
                    seen[k] = seen.get(k, 0) + 1
                    out.append(x)
            return out
        res.update({"ok": True, "diffs": trim(diffs, lambda x: x["class"], 20), "hits": trim(hits, lambda x: (x["clause"], x["input"].get("via")), 10)})
        evaluations = summary.get("evaluations", 0) + nsum.get("ns_comparisons", 0)
        dist = {k: v for k, v in gen.items() if k.startswith(("family_", "cat_", "mask_", "name_", "drop_")) or k in (
            "crlf", "dup_line", "ev_variant", "indent_line", "no_blank_separator", "no_final_newline", "preamble", "second_key_line",
            "shuffle_fields", "sysfs_variant", "leak_no_I_line")}
        stats.update({
            "programs": summary.get("texts", 0),
            "texts": summary.get("texts", 0),
            "entries": summary.get("entries", 0),
            "evaluations": evaluations,
            "distinct_nontrivial": summary.get("distinct_nontrivial", 0),
            "distinct_texts": summary.get("distinct", 0),
            "traces_validated_against_impl": evaluations,
            "keyboards_found_by_impl": summary.get("keyboards_found", 0),
            "devices_found_by_impl": summary.get("devices_found", 0),
            "impl_panics": summary.get("panics", 0),
            "exclusion_cases": summary.get("excl_cases", 0),
            "exclusion_names_flagged": summary.get("excl_flagged", 0),
            "wildmatch_panics": summary.get("oracle_panics", 0),
            "scalars_scanned_exhaustively": gen.get("scalars_scanned", 0),
            "whitespace_scalars_of_impl": gen.get("whitespace_scalars", 0),
            "lowercase_relevant_scalars_of_impl": gen.get("lowercase_relevant_scalars", 0),
            "swept_scalars": gen.get("swept_scalars", 0),
            "library_entries": gen.get("library_entries", 0),
            "captured_entries": gen.get("captured_entries", 0),
            "disagreements_checked": len(diffs),
            "generator": gen_line[:300],
            "input_distribution": dist,
            "samples": samples[:2] + nsamples[:1],
        })
        for k, v in nsum.items():
            stats[k] = v
        res["stats"] = stats
        res["wall_s"] = round(time.time() - t0, 1)
        shutil.rmtree(work, ignore_errors=True)
        os.makedirs(cdir, exist_ok=True)
        json.dump(res, open(cfile, "w"))
        return res


def replay(ctx, rp):
    """re-run a replay file's input on the real code and on the model and print both"""
    inp = rp.get("input") or (rp.get("first_difference") or {}).get("input") or {}
    sh = ctx["sh"]
    print("recorded: kind=%s clause=%s" % (rp.get("kind"), rp.get("clause")))
    if inp.get("text_hex") and not inp.get("spec"):
        rc, out, _ = sh([ctx["harness"], "listing-replay", "--hex", inp["text_hex"]])
        print(out)
        if ctx.get("model_exe"):
            rc, out, _ = sh([ctx["model_exe"], "one", inp["text_hex"]])
            for line in out.strip().split("\n"):
                m = re.match(r"(model \w+:\s+)(.*)$", line)
                if m:
                    print(m.group(1) + json.dumps(dec_result(m.group(2), 2 if "keyboards" in m.group(1) else 3), ensure_ascii=False))
        print("recorded observed: %s" % json.dumps(rp.get("observed"), ensure_ascii=False))
        print("recorded expected: %s" % json.dumps(rp.get("expected"), ensure_ascii=False))
        return 0
    if inp.get("spec"):
        work = os.path.join(ctx["build"], "work", "listing-replay")
        shutil.rmtree(work, ignore_errors=True)
        os.makedirs(os.path.join(work, "ns"))
        open(os.path.join(work, "ns", "0000.spec"), "w").write("\n".join(inp["spec"]) + "\n")
        cmd = "unshare -m %s listing-ns --dir %s --out %s" % (ctx["harness"], os.path.join(work, "ns"), os.path.join(work, "ns.out"))
        if "real-binary" in str(inp.get("via")) or "real-binary" in str(inp.get("what")):
            rb, err = build_real_binary(ctx)
            if rb:
                cmd += " --real-bin " + rb
        rc, out, _ = sh(cmd, timeout=600)
        print("device list:\n" + inp.get("text", ""))
        print("fabricated /sys: %s" % json.dumps(inp.get("sys")))
        print("fabricated /dev: %s" % json.dumps(inp.get("dev")))
        print("--dev-file args: %s   --exclude: %s" % (json.dumps(inp.get("dev_file_args")), json.dumps(inp.get("excludes"))))
        rc, out2, _ = sh("%s ns %s %s" % (ctx["model_exe"], os.path.join(work, "ns"), os.path.join(work, "ns.out")), timeout=600)
        d, h, s, _, notes = parse_ns_out(out2)
        d, h, pol = apply_log_policy(d, h, s)
        print("observations: %s" % json.dumps(pol))
        for x in d:
            print("DIFF %s: real=%s model=%s" % (x["input"].get("what"), json.dumps(x["impl"], ensure_ascii=False), json.dumps(x["model"], ensure_ascii=False)))
        for x in h:
            print("HIT %s via %s: observed=%s expected=%s" % (x["clause"], x["input"].get("via"), x["observed"], x["expected"]))
        if not d and not h:
            print("real code and model agree on this scenario now; no checker fires")
        for n in notes:
            print(n)
        return 0
    if inp.get("names") is not None:
        print("exclusion case: names=%s patterns=%s" % (json.dumps(inp.get("names"), ensure_ascii=False), json.dumps(inp.get("patterns"), ensure_ascii=False)))
        print("recorded observed: %s" % json.dumps(rp.get("observed"), ensure_ascii=False))
        print("recorded expected: %s" % json.dumps(rp.get("expected"), ensure_ascii=False))
        return 0
    print("replay names no concrete input (kind=%s): %s" % (rp.get("kind"), rp.get("broken")))
    return 0
