#!/usr/bin/env python3
"""seeded_table.py — markdown table of seeded/<id>/: what was changed and which check reported it."""
import json, glob, os, re
HERE = os.path.dirname(os.path.dirname(os.path.abspath(__file__)))
rows = []
for d in sorted(glob.glob(os.path.join(HERE, "seeded", "*"))):
    mf, rf = os.path.join(d, "meta.json"), os.path.join(d, "result.json")
    if not os.path.exists(mf):
        continue
    m = json.load(open(mf)); r = json.load(open(rf)) if os.path.exists(rf) else {}
    caught = []
    for p, x in sorted(r.items()):
        if x.get("detected"):
            rp = x.get("replay") or {}
            cl = rp.get("clause") or ("correspondence/proof: " + "; ".join(rp.get("broken") or [])[:60] if rp.get("broken") else "?")
            caught.append("%s (%s%s)" % (p, cl, "" if rp.get("kind") == "counterexample" else ", no-failing-input-found"))
        elif p == m.get("property"):
            caught.append("%s: not reported" % p)
    ok = (m.get("verified") or {}).get("confirmed")
    rows.append("| %s | %s | %s | %s | %s |" % (os.path.basename(d), m.get("property"),
                re.sub(r"\s+", " ", m.get("summary", ""))[:160].replace("|", "/"),
                re.sub(r"\s+", " ", m.get("needs", ""))[:140].replace("|", "/"),
                "; ".join(caught) + ("" if ok else " (NOT CONFIRMED)")))
print("| id | breaks | change | needs | reported by |\n|---|---|---|---|---|")
print("\n".join(rows))
