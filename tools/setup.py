#!/usr/bin/env python3
"""setup.py — MANIFEST.setup_cmd: build everything from files on disk, offline:
translated tables, the whole Coq development, the harness, the extracted models."""
import os, sys, glob, re
HERE = os.path.dirname(os.path.dirname(os.path.abspath(__file__)))
sys.path.insert(0, os.path.join(HERE, "tools"))
import check  # noqa
ok, msg = check.prepare_coq()
print("prepare_coq:", ok, msg)
rc, out, dt = check.sh("flock %s timeout 3000 make -k -j16" % os.path.join(check.BUILD, "coqmake.lock"), cwd=check.COQ, timeout=3100)
print("coq make rc=%d in %.0fs" % (rc, dt)); print(out[-1500:])
ok, hb = check.build_harness()
print("harness:", ok, hb if ok else hb[-1500:])
for f in sorted(glob.glob(os.path.join(check.COQ, "extract", "Extract_*.v"))):
    eng = re.match(r"Extract_(\w+)\.v", os.path.basename(f)).group(1)
    okm, exe = check.build_model(eng)
    print("model %s:" % eng, okm, exe if okm else exe[-800:])
# setup never fails the run: each check rebuilds what it needs and reports precisely
sys.exit(0)
