#!/usr/bin/env python3
"""seeded_matrix.py — run every check that shares an anchored file with a seeded change against it, to record
which checks report which changes (seeded/<id>/result.json gets one entry per property)."""
import os, re, glob, json, subprocess, sys
HERE = os.path.dirname(os.path.dirname(os.path.abspath(__file__)))
GROUPS = {
    "key_transforms.rs": ["C01", "C02", "C03", "C04", "C05", "C06", "C07", "C08", "C09", "C19", "C10", "C11", "C12", "C20", "C14"],
    "remapping_loop.rs": ["C06", "C10", "C11", "C12", "C20", "C16"],
    "fancy_layout_interpreting.rs": ["C13", "C14", "C15"],
    "layout_parsing_formatting.rs": ["C13", "C14", "C15"],
    "keys.rs": ["C13", "C14", "C15"],
    "key_codes.rs": ["C13", "C14", "C15", "C18", "C16"],
    "keyboard_listing.rs": ["C16"],
    "udev_utils.rs": ["C17"],
    "dev_input_rw.rs": ["C18", "C10"],
}
only = sys.argv[1:]
for d in sorted(glob.glob(os.path.join(HERE, "seeded", "*"))):
    sid = os.path.basename(d)
    if only and not any(sid.startswith(o) for o in only):
        continue
    patch = open(os.path.join(d, "patch.diff")).read()
    files = set(re.findall(r"^\+\+\+ b/src/(\S+)", patch, re.M))
    props = []
    for f in files:
        for p in GROUPS.get(f, []):
            if p not in props:
                props.append(p)
    rf = os.path.join(d, "result.json")
    done = json.load(open(rf)) if os.path.exists(rf) else {}
    todo = [p for p in props if p not in done]
    if not todo:
        continue
    subprocess.run([sys.executable, os.path.join(HERE, "tools", "seeded.py"), "run", sid] + todo)
