#!/usr/bin/env python3
"""check.py — single entry point of /verif.

  ./check Cxx [--tier quick|thorough] [--seed N] [--replay FILE]

Decides property Cxx on /repo's CURRENT working tree:
  1. regenerate the data part of the model from the source (translators),
  2. build the Coq development up to Properties/Cxx.vo, collect Print
     Assumptions, scan for forbidden vernacular,
  3. build the harness from the working tree (hooks on) and the extracted model,
  4. run the correspondence engine(s) the property depends on and apply the
     extracted property checkers to the real code's outputs,
  5. verdict (DESIGN.md 3.4), evidence/Cxx.json, replays/.
Exit 0 iff the property held on everything explored."""
import sys, os, json, time, hashlib, subprocess, fcntl, re, glob, importlib, shutil

HERE = os.path.dirname(os.path.dirname(os.path.abspath(__file__)))
sys.path.insert(0, os.path.join(HERE, "tools"))
REPO = os.environ.get("VERIF_REPO", "/repo")
BUILD = os.path.join(HERE, "build")
COQ = os.path.join(HERE, "coq")
GUARD = "ellbur_totalmapper_verif"

import props  # noqa: E402

FORBIDDEN = re.compile(r"\b(Admitted|admit|Axiom|Axioms|Parameter|Parameters|Conjecture|Conjectures|Admit Obligations|bypass_check|Unset Guard Checking|Unset Positivity Checking|Unset Universe Checking|type-in-type|impredicative-set)\b")
# Variable/Hypothesis are allowed inside sections only; checked separately
ALLOWED_AXIOMS = set(props.ALLOWED_AXIOMS)


def sh(cmd, cwd=None, timeout=None, env=None):
    e = dict(os.environ)
    e.update({"CARGO_NET_OFFLINE": "true", "LC_ALL": "C.UTF-8"})
    if env:
        e.update(env)
    t0 = time.time()
    try:
        p = subprocess.run(cmd, shell=isinstance(cmd, str), cwd=cwd, env=e, stdout=subprocess.PIPE,
                           stderr=subprocess.STDOUT, timeout=timeout)
        out = p.stdout.decode("utf-8", "replace")
        return p.returncode, out, time.time() - t0
    except subprocess.TimeoutExpired as ex:
        out = (ex.stdout or b"").decode("utf-8", "replace")
        return 124, out + "\n[timeout]", time.time() - t0


class Lock:
    def __init__(self, name):
        os.makedirs(BUILD, exist_ok=True)
        self.path = os.path.join(BUILD, name + ".lock")

    def __enter__(self):
        self.f = open(self.path, "w")
        fcntl.flock(self.f, fcntl.LOCK_EX)
        return self

    def __exit__(self, *a):
        fcntl.flock(self.f, fcntl.LOCK_UN)
        self.f.close()


def tree_hash(paths):
    h = hashlib.sha256()
    for root in paths:
        if os.path.isfile(root):
            files = [root]
        else:
            files = []
            for d, dn, fn in os.walk(root):
                dn[:] = sorted(x for x in dn if x not in ("target", ".git", "_build", "__pycache__"))
                for f in sorted(fn):
                    if f.endswith((".vo", ".vos", ".vok", ".glob", ".aux", ".pyc", ".lock")) or f.startswith(".lia"):
                        continue
                    files.append(os.path.join(d, f))
        for f in files:
            h.update(f.encode())
            try:
                with open(f, "rb") as fh:
                    h.update(fh.read())
            except OSError:
                h.update(b"<unreadable>")
    return h.hexdigest()[:24]


# ---------------------------------------------------------------- Coq side

def strip_comments(src):
    out, depth, i = [], 0, 0
    while i < len(src):
        if src.startswith("(*", i):
            depth += 1; i += 2
        elif src.startswith("*)", i) and depth > 0:
            depth -= 1; i += 2
        else:
            if depth == 0:
                out.append(src[i])
            i += 1
    return "".join(out)


def coq_sources():
    return sorted(glob.glob(os.path.join(COQ, "theories", "*.v")) + glob.glob(os.path.join(COQ, "Properties", "*.v"))
                  + glob.glob(os.path.join(COQ, "extract", "*.v")))


def forbidden_scan(files=None):
    """forbidden vernacular in the given files (default: anywhere in the development), comments stripped;
    Variable/Hypothesis/Context only inside a Section."""
    bad = []
    for f in (coq_sources() if files is None else files):
        src = strip_comments(open(f, encoding="utf-8").read())
        # string literals may legitimately contain anything: blank them
        src_ns = re.sub(r'"(?:[^"]|"")*"', '""', src)
        for m in FORBIDDEN.finditer(src_ns):
            bad.append("%s: %s" % (os.path.relpath(f, HERE), m.group(0)))
        depth = 0
        for line in src_ns.split("\n"):
            s = line.strip()
            if re.match(r"Section\s+\w+", s):
                depth += 1
            elif re.match(r"End\s+\w+\s*\.", s) and depth > 0:
                depth -= 1
            elif depth == 0 and re.match(r"(Variable|Variables|Hypothesis|Hypotheses|Context)\b", s):
                bad.append("%s: %s outside a section" % (os.path.relpath(f, HERE), s.split()[0]))
    return bad


def dep_closure(vfile):
    """transitive TM/TMGen/TMProps dependencies of a .v file, from its Require lines"""
    seen, todo = [], [vfile]
    while todo:
        f = todo.pop()
        if f in seen or not os.path.exists(f):
            continue
        seen.append(f)
        src = strip_comments(open(f, encoding="utf-8").read())
        for m in re.finditer(r"From\s+(TM|TMGen|TMProps)\s+Require\s+(?:Import|Export)?\s*([^.]*)\.", src):
            d = {"TM": "theories", "TMGen": "gen", "TMProps": "Properties"}[m.group(1)]
            for name in m.group(2).split():
                todo.append(os.path.join(COQ, d, name + ".v"))
    return seen


def count_obligations(files):
    n = 0
    for f in files:
        src = strip_comments(open(f, encoding="utf-8").read())
        n += len(re.findall(r"\b(Qed|Defined)\s*\.", src))
    return n


def prepare_coq():
    """translators + project file + Makefile.  Returns (ok, message)."""
    # the tables are regenerated from what the code COMPUTES (tm-harness tables: every table-like function
    # evaluated on its whole finite domain) and cross-checked with a reading of the source text; if the harness
    # does not build, the source text alone is used
    dump = os.path.join(BUILD, "gen", "tables_dump.txt")
    os.makedirs(os.path.dirname(dump), exist_ok=True)
    okh, hb = build_harness()
    args = []
    if okh:
        rc, out, _ = sh("%s tables > %s.tmp && mv %s.tmp %s" % (hb, dump, dump, dump), timeout=120)
        if rc == 0:
            args = ["--dump", dump]
    rc, out, _ = sh([sys.executable, os.path.join(HERE, "tools", "translate.py")] + args, cwd=HERE, timeout=120)
    if rc != 0:
        return False, "translator failed: " + out.strip()[-400:]
    sh([sys.executable, os.path.join(HERE, "tools", "gen_coqproject.py")], cwd=HERE)
    mk = os.path.join(COQ, "Makefile")
    cp = os.path.join(COQ, "_CoqProject")
    if not os.path.exists(mk) or os.path.getmtime(mk) < os.path.getmtime(cp):
        rc, out, _ = sh("coq_makefile -f _CoqProject -o Makefile", cwd=COQ, timeout=120)
        if rc != 0:
            return False, "coq_makefile failed: " + out[-400:]
    return True, out.strip().split("\n")[-1] if out else ""


def build_property(prop, tier):
    """make Properties/Cxx.vo (forced), parse Print Assumptions.  Returns dict."""
    res = {"built": False, "assumptions_closed": 0, "axioms": [], "theorems": [], "log_tail": "", "wall_s": 0.0,
           "checker_cmd": "", "obligations": 0, "discharged": 0, "forbidden": [], "pinned": 0}
    pfile = os.path.join(COQ, "Properties", prop + ".v")
    if not os.path.exists(pfile):
        res["log_tail"] = "no Properties/%s.v" % prop
        return res
    vo = os.path.join(COQ, "Properties", prop + ".vo")
    if os.path.exists(vo):
        os.remove(vo)
    cmd = "flock %s timeout 1500 make -j16 Properties/%s.vo" % (os.path.join(BUILD, "coqmake.lock"), prop)
    res["checker_cmd"] = "cd coq && coq_makefile -f _CoqProject -o Makefile && " + cmd
    rc, out, dt = sh(cmd, cwd=COQ, timeout=3000)
    res["wall_s"] = round(dt, 1)
    res["log_tail"] = out[-1500:]
    closure = dep_closure(pfile)
    res["obligations"] = count_obligations(closure)
    # the verdict looks at everything the property's theorems depend on; the development-wide scan is reported too
    res["forbidden"] = forbidden_scan(closure)
    res["forbidden_elsewhere"] = [x for x in forbidden_scan() if x not in res["forbidden"]]
    if rc != 0:
        # count what did build: files of the closure with an up-to-date .vo
        ok_files = [f for f in closure if os.path.exists(f[:-2] + ".vo") and os.path.getmtime(f[:-2] + ".vo") >= os.path.getmtime(f)]
        res["discharged"] = count_obligations(ok_files)
        m = re.search(r'File "([^"]+)", line (\d+).*?\n(Error:.*?)(?:\n\n|\Z)', out, re.S)
        res["failed_at"] = ("%s:%s %s" % (m.group(1), m.group(2), " ".join(m.group(3).split())[:300])) if m else "make failed"
        return res
    res["built"] = True
    res["discharged"] = res["obligations"]
    # Print Assumptions output: either "Closed under the global context" or "Axioms:\n name : type ..."
    res["assumptions_closed"] = out.count("Closed under the global context")
    for m in re.finditer(r"Axioms:\n((?:.+\n?)+?)(?:\n|\Z)", out):
        for line in m.group(1).split("\n"):
            mm = re.match(r"^([A-Za-z_][\w.']*)\s*:", line)
            if mm:
                res["axioms"].append(mm.group(1))
    src = strip_comments(open(pfile, encoding="utf-8").read())
    res["theorems"] = re.findall(r"\bTheorem\s+([\w']+)", src)
    res["print_assumptions"] = len(re.findall(r"\bPrint Assumptions\b", src))
    if tier == "thorough":
        rc2, out2, dt2 = sh("timeout 1500 coqchk -silent -o -Q theories TM -Q gen TMGen -Q Properties TMProps TMProps.%s" % prop, cwd=COQ, timeout=1600)
        res["coqchk_rc"] = rc2
        res["coqchk_tail"] = out2[-800:]
        # the independent checker's own list of axioms of everything loaded
        m2 = re.search(r"\* Axioms:\s*(.*?)\n\s*\n\* Constants", out2, re.S)
        ax = []
        if m2 and "<none>" not in m2.group(1):
            ax = [a.strip() for a in m2.group(1).split("\n") if a.strip()]
        res["coqchk_axioms"] = ax
        for sect in ("type-in-type", "unsafe (co)fixpoints", "positivity is assumed"):
            m3 = re.search(re.escape(sect) + r":\s*(\S+)", out2)
            if m3 and m3.group(1) != "<none>":
                res["coqchk_rc"] = 99
                res["coqchk_tail"] = "coqchk reports " + sect + ": " + m3.group(1)
        if [a for a in ax if a.split(".")[-1] not in ALLOWED_AXIOMS and a not in ALLOWED_AXIOMS]:
            res["coqchk_rc"] = 98
            res["coqchk_tail"] = "coqchk lists axioms outside the allow-list: " + ", ".join(ax)
        res["checker_cmd"] += " && coqchk -silent -o ... TMProps.%s" % prop
        res["wall_s"] = round(dt + dt2, 1)
    return res


# ---------------------------------------------------------------- harness / model build

def build_harness():
    rc, out, _ = sh([sys.executable, os.path.join(HERE, "tools", "gen_harness.py")], cwd=HERE, timeout=60)
    if rc != 0:
        return False, out[-600:]
    rc, out, dt = sh("cargo build --offline 2>&1 | grep -E '^(error|warning: unused)|^error|-->|Finished|could not' | head -60",
                     cwd=os.path.join(HERE, "harness"), timeout=1500,
                     env={"CARGO_TARGET_DIR": os.path.join(BUILD, "cargo"), "RUSTFLAGS": "--cfg " + GUARD})
    ok = "Finished" in out and "error" not in out.split("Finished")[0].lower().replace("-->", "")
    binp = os.path.join(BUILD, "cargo", "debug", "tm-harness")
    if not ok or not os.path.exists(binp):
        return False, out[-1200:]
    return True, binp


def build_model(engine):
    """extract coq/extract/Extract_<engine>.v and compile ocaml/<engine>_check.ml with it."""
    src = os.path.join(COQ, "extract", "Extract_%s.v" % engine)
    drv = os.path.join(HERE, "ocaml", "%s_check.ml" % engine)
    out_dir = os.path.join(BUILD, "ocaml", engine)
    os.makedirs(out_dir, exist_ok=True)
    exe = os.path.join(out_dir, "%s_check" % engine)
    # dependencies: theories closure
    deps = dep_closure(src)
    targets = " ".join(os.path.relpath(f, COQ)[:-2] + ".vo" for f in deps if f != src)
    rc, out, _ = sh("flock %s timeout 1500 make -j16 %s" % (os.path.join(BUILD, "coqmake.lock"), targets), cwd=COQ, timeout=3000)
    if rc != 0:
        return False, "model does not compile: " + out[-800:]
    stamp = os.path.join(out_dir, "stamp")
    key = tree_hash(deps + [drv])
    if os.path.exists(exe) and os.path.exists(stamp) and open(stamp).read() == key:
        return True, exe
    rc, out, _ = sh("coqc -Q %s TM -Q %s TMGen %s" % (os.path.join(COQ, "theories"), os.path.join(COQ, "gen"), src), cwd=out_dir, timeout=600)
    if rc != 0:
        return False, "extraction failed: " + out[-800:]
    shutil.copy(drv, os.path.join(out_dir, os.path.basename(drv)))
    rc, out, _ = sh("ocamlfind ocamlopt -package str,unix -linkpkg -w -a -O2 -o %s model.mli model.ml %s 2>&1 || ocamlfind ocamlopt -package str,unix -linkpkg -w -a -o %s model.mli model.ml %s" % (
        exe, os.path.basename(drv), exe, os.path.basename(drv)), cwd=out_dir, timeout=600)
    if not os.path.exists(exe) or rc != 0:
        return False, "ocaml build failed: " + out[-800:]
    open(stamp, "w").write(key)
    return True, exe


# ---------------------------------------------------------------- has the source changed since the models were written?

def changed_sources():
    """files of /repo/src that differ from tools/baseline_src.json (the tree the models were validated against).
    Used only to escalate the search budget, never for the verdict."""
    try:
        base = json.load(open(os.path.join(HERE, "tools", "baseline_src.json")))["files"]
    except Exception:
        return ["(no baseline)"]
    changed = []
    cur = sorted(glob.glob(os.path.join(REPO, "src", "*.rs")) + [os.path.join(REPO, "Cargo.toml")])
    for f in cur:
        rel = os.path.relpath(f, REPO)
        try:
            h = hashlib.sha256(open(f, "rb").read()).hexdigest()
        except OSError:
            h = None
        if base.get(rel) != h:
            changed.append(rel)
    for rel in base:
        if not os.path.exists(os.path.join(REPO, rel)):
            changed.append(rel + " (removed)")
    return changed


# ---------------------------------------------------------------- known findings

def load_known():
    known = []
    p = os.path.join(HERE, "KNOWN_FINDINGS.txt")
    if os.path.exists(p):
        for line in open(p, encoding="utf-8"):
            line = line.strip()
            if not line or line.startswith("#"):
                continue
            m = re.match(r"open:\s+property=(C\d+)\s+class=(\S+)\s+(.*)", line)
            if m:
                known.append({"property": m.group(1), "class": m.group(2), "text": m.group(3)})
    return known


# ---------------------------------------------------------------- main

def main():
    args = sys.argv[1:]
    if not args or not re.match(r"^C\d+$", args[0]):
        print("usage: check Cxx [--tier quick|thorough] [--seed N] [--replay FILE]")
        return 2
    prop = args[0]
    tier = os.environ.get("VERIF_TIER", "quick")
    seed = int(os.environ.get("VERIF_SEED", "1"))
    replay = None
    i = 1
    while i < len(args):
        if args[i] == "--tier":
            tier = args[i + 1]; i += 2
        elif args[i] == "--seed":
            seed = int(args[i + 1]); i += 2
        elif args[i] == "--replay":
            replay = args[i + 1]; i += 2
        else:
            i += 1
    if tier not in ("quick", "thorough"):
        tier = "quick"
    if prop not in props.PROPS:
        print("property %s is not claimed (see MANIFEST.json not_applicable)" % prop)
        return 2
    P = props.PROPS[prop]
    t0 = time.time()
    os.makedirs(os.path.join(HERE, "evidence"), exist_ok=True)
    os.makedirs(os.path.join(HERE, "replays"), exist_ok=True)

    ctx = {"prop": prop, "tier": tier, "seed": seed, "here": HERE, "repo": REPO, "build": BUILD, "sh": sh,
           "tree_hash": tree_hash, "Lock": Lock, "build_model": build_model}

    if replay:
        rp = json.load(open(replay))
        # a replay is re-run by the engine that wrote it (a property may have several), else by the first one
        ename = rp.get("engine") if rp.get("engine") in P["engines"] else P["engines"][0]
        eng = importlib.import_module("engines." + ename)
        with Lock("build"):
            ok, hb = build_harness()
            okm, exe = build_model(ename) if getattr(eng, "NEEDS_MODEL", True) else (True, None)
        ctx.update({"harness": hb if ok else None, "model_exe": exe if okm else None})
        return eng.replay(ctx, rp)

    # ---- proof side
    with Lock("build"):
        okc, msg = prepare_coq()
        if okc:
            proof = build_property(prop, tier)
        else:
            proof = {"built": False, "log_tail": msg, "failed_at": msg, "obligations": 0, "discharged": 0,
                     "axioms": [], "forbidden": [], "theorems": [], "checker_cmd": "tools/translate.py", "wall_s": 0,
                     "assumptions_closed": 0}
    bad_axioms = [a for a in proof.get("axioms", []) if a.split(".")[-1] not in ALLOWED_AXIOMS and a not in ALLOWED_AXIOMS]
    proof_ok = bool(proof["built"]) and not bad_axioms and not proof["forbidden"] \
        and proof.get("print_assumptions", 0) >= len(proof.get("theorems", [])) > 0 \
        and proof.get("coqchk_rc", 0) == 0
    proof_problem = None
    if not proof_ok:
        if not proof["built"]:
            proof_problem = "proof obligation no longer checks: " + proof.get("failed_at", proof["log_tail"][-300:])
        elif bad_axioms:
            proof_problem = "theorem depends on axioms outside the allow-list: " + ", ".join(bad_axioms)
        elif proof["forbidden"]:
            proof_problem = "forbidden vernacular: " + "; ".join(proof["forbidden"][:5])
        elif proof.get("coqchk_rc", 0) != 0:
            proof_problem = "coqchk failed: " + proof.get("coqchk_tail", "")[-300:]
        else:
            proof_problem = "Properties/%s.v lacks Theorem/Print Assumptions pairs" % prop

    # ---- correspondence / implementation side
    engine_results = []
    for ename in P["engines"]:
        eng = importlib.import_module("engines." + ename)
        with Lock("build"):
            ok, hb = build_harness() if getattr(eng, "NEEDS_HARNESS", True) else (True, None)
            okm, exe = build_model(ename) if getattr(eng, "NEEDS_MODEL", True) else (True, None)
        if not ok:
            engine_results.append({"engine": ename, "ok": False, "error": "harness does not build against the working tree: " + str(hb)[-600:],
                                   "diffs": [], "hits": [], "stats": {}})
            continue
        if not okm:
            engine_results.append({"engine": ename, "ok": False, "error": str(exe), "diffs": [], "hits": [], "stats": {}})
            continue
        c = dict(ctx); c.update({"harness": hb, "model_exe": exe, "budget": "normal"})
        r = eng.run(c)
        engine_results.append(r)

    known = [k for k in load_known() if k["property"] == prop]
    violations = []       # (kind, replay_path, text)
    known_seen = []
    rel_diffs, rel_hits, unobserved = [], [], 0

    def relevant(r):
        d = [x for x in r.get("diffs", []) if x.get("class") in P["classes"]]
        h = [x for x in r.get("hits", []) if any(x.get("clause", "") == c or x.get("clause", "").startswith(c + ".") for c in P["clauses"])]
        return d, h

    for r in engine_results:
        d, h = relevant(r)
        rel_diffs += d; rel_hits += h
        unobserved += len(r.get("diffs", [])) - len(d)

    # escalate the search when the correspondence or the proof broke but no concrete failing input is known yet,
    # and whenever the source differs from the tree the models were validated against (look harder at changed code)
    corr_broken = bool(rel_diffs) or any(not r.get("ok", False) for r in engine_results)
    changed = changed_sources()
    escalated = False
    if (corr_broken or not proof_ok or changed) and not [h for h in rel_hits if not h.get("known_class")]:
        escalated = True
        for ename in P["engines"]:
            eng = importlib.import_module("engines." + ename)
            if not hasattr(eng, "run"):
                continue
            prev = [r for r in engine_results if r["engine"] == ename]
            if prev and not prev[0].get("ok", False) and "harness" in (prev[0].get("error") or ""):
                continue
            c = dict(ctx); c.update({"harness": os.path.join(BUILD, "cargo", "debug", "tm-harness"),
                                     "model_exe": os.path.join(BUILD, "ocaml", ename, ename + "_check"), "budget": "search"})
            try:
                r2 = eng.run(c)
            except Exception as ex:  # noqa
                continue
            r2["engine"] = ename + "(search)"
            engine_results.append(r2)
            d, h = relevant(r2)
            rel_hits += h
            rel_diffs += d

    def write_replay(obj):
        blob = json.dumps(obj, sort_keys=True, indent=1)
        name = "%s-%s.json" % (prop, hashlib.sha256(blob.encode()).hexdigest()[:12])
        path = os.path.join(HERE, "replays", name)
        open(path, "w").write(blob)
        return path

    seen_clauses = set()
    for h in rel_hits:
        kc = h.get("known_class")
        listed = kc and any(k["class"] == kc for k in known)
        if listed:
            txt = [k["text"] for k in known if k["class"] == kc][0]
            if kc not in known_seen:
                known_seen.append(kc)
                print("KNOWN-FINDING: property=%s class=%s %s" % (prop, kc, txt))
            continue
        key = (h.get("clause"), h.get("engine"))
        if key in seen_clauses:
            continue
        seen_clauses.add(key)
        path = write_replay({"property": prop, "kind": "counterexample", "engine": h.get("engine"), "seed": seed,
                             "clause": h.get("clause"), "input": h.get("input"), "observed": h.get("observed"),
                             "expected": h.get("expected"), "note": h.get("note", "")})
        violations.append(("counterexample", path, "%s fails on the real code: %s" % (h.get("clause"), json.dumps(h.get("input"))[:300])))

    if not violations:
        broken = []
        if not proof_ok:
            broken.append(proof_problem)
        for r in engine_results:
            if not r.get("ok", False):
                broken.append("correspondence %s could not be checked: %s" % (r["engine"], (r.get("error") or "")[:400]))
        if rel_diffs:
            d0 = rel_diffs[0]
            broken.append("correspondence %s: model and implementation differ in observation class %s on %s" % (
                d0.get("engine"), d0.get("class"), json.dumps(d0.get("input"))[:400]))
        if broken:
            path = write_replay({"property": prop, "kind": "no-failing-input-found", "seed": seed, "broken": broken,
                                 "first_difference": rel_diffs[0] if rel_diffs else None,
                                 "theorems": proof.get("theorems", [])})
            violations.append(("no-failing-input-found", path, broken[0]))

    # ---- evidence
    stats = {}
    samples = []
    for r in engine_results:
        for k, v in r.get("stats", {}).items():
            if k == "samples":
                samples += v
            elif isinstance(v, (int, float)) and not isinstance(v, bool):
                stats[k] = stats.get(k, 0) + v
            else:
                stats.setdefault(k, v)
    tb = ["Coq 8.16.1 kernel (coqc, full .vo build; vm_compute used, native_compute not used)",
          "axioms reported by Print Assumptions on this run: " + (", ".join(proof.get("axioms", [])) or "none (Closed under the global context x%d)" % proof.get("assumptions_closed", 0)),
          "translators tools/translate.py (regex level) regenerate coq/gen/*.v from /repo on every run",
          "extraction: ExtrOcamlBasic + ExtrOcamlString only; OCaml 4.13.1; ocaml/*_check.ml drivers",
          "Rust harness harness/ (includes /repo/src/*.rs by #[path], cfg %s) and its generators" % GUARD] + P.get("trusted", [])
    coverage = {
        "obligations": max(1, proof.get("obligations", 0)),
        "discharged": proof.get("discharged", 0),
        "checker_cmd": proof.get("checker_cmd", ""),
        "trusted_base": tb,
        "theorems": proof.get("theorems", []),
        "proof_built": bool(proof["built"]),
        "rule": P.get("rule", ""),
        "samples": samples[:6] if samples else ["(no correspondence cases: see explanation)"],
        "unobserved_diffs": unobserved,
        "source_files_changed_since_baseline": changed,
        "search_budget_used": escalated,
        "forbidden_vernacular_outside_this_property": proof.get("forbidden_elsewhere", []),
        "known_findings_seen": known_seen,
        "engines": [{"engine": r["engine"], "ok": r.get("ok", False), "error": r.get("error"),
                     "diffs_in_class": len(relevant(r)[0]), "monitor_hits": len(relevant(r)[1]),
                     "cache_hit": r.get("cache_hit", False), "wall_s": r.get("wall_s")} for r in engine_results],
        "explanation": P.get("explanation", ""),
    }
    coverage.update(stats)
    ev = {"property_id": prop, "tier": tier, "seed": seed, "level": "proof", "coverage": coverage,
          "assumptions": P.get("assumptions", []), "wall_s": round(time.time() - t0, 1), "violations": len(violations)}
    open(os.path.join(HERE, "evidence", prop + ".json"), "w").write(json.dumps(ev, indent=1, sort_keys=True) + "\n")

    for kind, path, text in violations:
        print("DETAIL: " + text)
        if kind == "counterexample":
            print("VIOLATION property=%s replay=%s" % (prop, path))
        else:
            print("VIOLATION property=%s replay=%s no-failing-input-found" % (prop, path))
    if not violations:
        print("OK property=%s tier=%s theorems=%d obligations=%d/%d engines=%s wall=%.1fs" % (
            prop, tier, len(proof.get("theorems", [])), proof.get("discharged", 0), proof.get("obligations", 0),
            ",".join(r["engine"] for r in engine_results), time.time() - t0))
    return 1 if violations else 0


if __name__ == "__main__":
    sys.exit(main())
