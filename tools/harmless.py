#!/usr/bin/env python3
"""harmless.py — behaviour-preserving refactorings of /repo (written by fresh sub-agents) against the checks:
none of them may raise an alarm.   tools/harmless.py import SRC.diff SRC.txt ID ;  tools/harmless.py run ID PROP..."""
import sys, os, json, shutil, subprocess, fcntl, re, time
HERE = os.path.dirname(os.path.dirname(os.path.abspath(__file__)))
D = os.path.join(HERE, "harmless")
def sh(cmd, cwd=None):
    p = subprocess.run(cmd, shell=True, cwd=cwd, stdout=subprocess.PIPE, stderr=subprocess.STDOUT)
    return p.returncode, p.stdout.decode("utf-8", "replace")
a = sys.argv[1:]
if a[0] == "import":
    d = os.path.join(D, a[3]); os.makedirs(d, exist_ok=True)
    shutil.copy(a[1], os.path.join(d, "patch.diff")); shutil.copy(a[2], os.path.join(d, "note.txt"))
    print("imported", a[3])
elif a[0] == "run":
    d = os.path.join(D, a[1]); props = a[2:]
    lock = open(os.path.join(HERE, "build", "repo-mutation.lock"), "w"); fcntl.flock(lock, fcntl.LOCK_EX)
    res = {}
    try:
        rc, out = sh("git -C /repo status --porcelain --untracked-files=no")
        if out.strip(): print("/repo not clean"); sys.exit(2)
        rc, out = sh("git -C /repo apply %s" % os.path.join(d, "patch.diff"))
        if rc: print("does not apply", out); sys.exit(2)
        for p in props:
            evf = os.path.join(HERE, "evidence", p + ".json"); saved = open(evf).read() if os.path.exists(evf) else None
            t0 = time.time(); rc, out = sh("./check %s --tier quick" % p, cwd=HERE)
            if saved is not None: open(evf, "w").write(saved)
            lines = [l for l in out.split("\n") if l.startswith(("VIOLATION", "OK ", "DETAIL"))]
            res[p] = {"exit": rc, "alarm": rc != 0, "lines": lines[:4], "wall_s": round(time.time() - t0, 1)}
            print(a[1], p, "exit", rc, "|", " || ".join(lines[:2])[:300])
    finally:
        sh("git -C /repo checkout -- ."); fcntl.flock(lock, fcntl.LOCK_UN)
    rf = os.path.join(d, "result.json"); old = json.load(open(rf)) if os.path.exists(rf) else {}
    old.update(res); json.dump(old, open(rf, "w"), indent=1)
