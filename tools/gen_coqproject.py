#!/usr/bin/env python3
"""Write coq/_CoqProject from the files present (theories/, gen/, Properties/)."""
import os, glob
HERE = os.path.dirname(os.path.dirname(os.path.abspath(__file__)))
C = os.path.join(HERE, "coq")
lines = ["-Q theories TM", "-Q gen TMGen", "-Q Properties TMProps", "-arg -w -arg -notation-overridden,-deprecated-hint-without-locality,-deprecated-instance-without-locality", ""]
for d in ("gen", "theories", "Properties"):
    for f in sorted(glob.glob(os.path.join(C, d, "*.v"))):
        lines.append(os.path.relpath(f, C))
content = "\n".join(lines) + "\n"
p = os.path.join(C, "_CoqProject")
try:
    old = open(p).read()
except FileNotFoundError:
    old = None
if old != content:
    open(p, "w").write(content)
