#!/usr/bin/env python3
"""gen_spec_kernel_keys.py — ONE-TIME derivation of coq/theories/SpecKernelKeys.v
from the kernel's uapi header (linux-libc-dev, /usr/include/linux/input-event-codes.h).

The derived table is committed; NO check reads the header (./check never runs
this script).  Re-run by hand only to re-pin against a newer header:
    python3 tools/gen_spec_kernel_keys.py > coq/theories/SpecKernelKeys.v

Content: every `#define KEY_<ident> <number>` (decimal or hex) and every alias
`#define KEY_<a> KEY_<b>` resolved to its number, in header order.  KEY_CNT,
KEY_MAX and KEY_MIN_INTERESTING are bounds, not keys, and are left out (KEY_MAX
is given separately as kernel_key_max)."""
import re, subprocess, sys

HDR = "/usr/include/linux/input-event-codes.h"
src = open(HDR, encoding="utf-8").read()
vals, order = {}, []
for line in src.split("\n"):
    m = re.match(r"#define\s+(KEY_[A-Za-z0-9_]+)\s+(0x[0-9a-fA-F]+|\d+|KEY_[A-Za-z0-9_]+)\b", line)
    if not m:
        continue
    name, v = m.group(1), m.group(2)
    if v.startswith("KEY_"):
        if v not in vals:
            sys.exit("alias before definition: " + line)
        vals[name] = vals[v]
    else:
        vals[name] = int(v, 0)
    order.append(name)
key_max = vals["KEY_MAX"]
names = [n for n in order if n not in ("KEY_MAX", "KEY_MIN_INTERESTING", "KEY_CNT", "KEY_RESERVED")]
try:
    ver = subprocess.run(["dpkg-query", "-W", "-f", "${Version}", "linux-libc-dev"], stdout=subprocess.PIPE).stdout.decode().strip()
except Exception:
    ver = "?"
out = []
out.append("(* SpecKernelKeys.v — PINNED copy of the kernel's KEY_* numbering (the oracle of")
out.append("   C18_codes_are_kernel_codes).  Derived ONCE by tools/gen_spec_kernel_keys.py from")
out.append("   /usr/include/linux/input-event-codes.h of linux-libc-dev %s; committed; no" % ver)
out.append("   check reads the header.  Aliases (#define KEY_A KEY_B) are resolved.  KEY_RESERVED")
out.append("   (0), KEY_MAX, KEY_CNT, KEY_MIN_INTERESTING are not keys and are left out.")
out.append("   Definitions only. *)")
out.append("From Coq Require Import List NArith String.")
out.append("Import ListNotations.")
out.append("Open Scope N_scope.")
out.append("")
out.append("Definition kernel_key_max : N := %d." % key_max)
out.append("")
out.append("Definition kernel_keys : list (string * N) := [")
out.append(";\n".join('  ("%s"%%string, %d)' % (n, vals[n]) for n in names))
out.append("].")
print("\n".join(out))
