#!/usr/bin/env python3
"""translate.py — regenerate the data part of the Coq model from /repo's
current working tree.  Deliberately dumb (regex level) and loud: when a shape
it expects is missing it exits non-zero and the check treats that like a
broken correspondence.

Outputs (written only when the content changed, so make does not rebuild):
  coq/gen/KeyTable.v   enum KeyCode: (ident, code, serde name)
  coq/gen/Modifiers.v  is_action_key (key_transforms.rs) and is_modifier
                       (fancy_layout_interpreting.rs) as code lists
  coq/gen/CharTable.v  CHAR_ACCESS_MAP: (scalar, needs shift, key code)
  coq/gen/Rows.v       the physical US rows and the five Row slices
  build/gen/tables.json the same tables for the harness / comparator
"""
import json, os, re, sys

REPO = os.environ.get("VERIF_REPO", "/repo")
HERE = os.path.dirname(os.path.dirname(os.path.abspath(__file__)))
GEN = os.path.join(HERE, "coq", "gen")


class TranslateError(Exception):
    pass


def read(rel):
    with open(os.path.join(REPO, rel), encoding="utf-8") as f:
        return f.read()


def strip_comments(s):
    s = re.sub(r"//[^\n]*", "", s)
    return s


def coq_string(s):
    # Coq string literal: double the double quotes; we only emit ASCII idents
    if any(ord(c) < 32 or ord(c) > 126 for c in s):
        raise TranslateError("non-printable in identifier %r" % s)
    return '"' + s.replace('"', '""') + '"'


def parse_keycodes():
    src = read("src/key_codes.rs")
    m = re.search(r"pub enum KeyCode\s*\{(.*?)\n\}", src, re.S)
    if not m:
        raise TranslateError("enum KeyCode not found in key_codes.rs")
    body = m.group(1)
    entries = []
    rename = None
    for raw in body.split("\n"):
        line = raw.strip()
        if not line or line.startswith("//"):
            continue
        r = re.match(r'#\[serde\(rename\s*=\s*"([^"]*)"\)\]$', line)
        if r:
            rename = r.group(1)
            continue
        if line.startswith("#["):
            # other attribute on a variant: not understood
            raise TranslateError("unexpected attribute in KeyCode: " + line)
        v = re.match(r"([A-Za-z_][A-Za-z0-9_]*)\s*=\s*(0x[0-9a-fA-F]+|\d+)\s*,?$", line)
        if not v:
            raise TranslateError("unparsed KeyCode line: " + line)
        ident, num = v.group(1), int(v.group(2), 0)
        entries.append((ident, num, rename if rename is not None else ident))
        rename = None
    if len(entries) < 100:
        raise TranslateError("suspiciously few key codes: %d" % len(entries))
    return entries


def parse_bool_match(src, fn_name, true_means):
    """fn NAME(k: &KeyCode) -> bool { ... match k { A => b, ..., _ => b } }"""
    m = re.search(r"fn %s\s*\([^)]*\)\s*->\s*bool\s*\{(.*?)\n\}" % fn_name, src, re.S)
    if not m:
        raise TranslateError("fn %s not found" % fn_name)
    body = strip_comments(m.group(1))
    mm = re.search(r"match\s+k\s*\{(.*?)\}", body, re.S)
    if not mm:
        raise TranslateError("match k {..} not found in %s" % fn_name)
    arms = [a.strip() for a in mm.group(1).split(",") if a.strip()]
    listed = {}
    default = None
    for a in arms:
        r = re.match(r"([A-Za-z_][A-Za-z0-9_:]*)\s*=>\s*(true|false)$", a)
        if not r:
            raise TranslateError("unparsed arm in %s: %r" % (fn_name, a))
        name, val = r.group(1), r.group(2) == "true"
        if name == "_":
            default = val
        else:
            listed[name.split("::")[-1]] = val
    if default is None:
        raise TranslateError("no default arm in %s" % fn_name)
    # anything else in the function body besides `use` and the match is not understood
    rest = body[:mm.start()] + body[mm.end():]
    rest = re.sub(r"use\s+[^;]*;", "", rest).strip()
    if rest:
        raise TranslateError("unexpected code in %s: %r" % (fn_name, rest[:80]))
    return listed, default


INSERT_RE = re.compile(r"res\.insert\(\s*'((?:\\.|[^'\\]))'\s*,\s*SinkKey\s*\{\s*sh:\s*(true|false)\s*,\s*k:\s*([A-Za-z0-9_]+)\s*\}\s*\)\s*;")


def parse_char_table(codes):
    src = strip_comments(read("src/char_production_map.rs"))
    m = re.search(r"fn _char_access_map\(\)[^{]*\{(.*?)\n\}", src, re.S)
    if not m:
        raise TranslateError("_char_access_map not found")
    body = m.group(1)
    rows = []
    consumed = 0
    for r in INSERT_RE.finditer(body):
        ch = r.group(1)
        if ch.startswith("\\"):
            esc = {"\\'": "'", "\\\\": "\\", '\\"': '"'}
            if ch not in esc:
                raise TranslateError("unknown char escape " + ch)
            ch = esc[ch]
        if r.group(3) not in codes:
            raise TranslateError("char table names unknown key " + r.group(3))
        rows.append((ord(ch), r.group(2) == "true", r.group(3)))
        consumed += 1
    leftover = INSERT_RE.sub("", body)
    leftover = leftover.replace("let mut res = HashMap::new();", "").replace("res", "").strip()
    if leftover:
        raise TranslateError("unexpected code in _char_access_map: %r" % leftover[:80])
    if consumed < 50:
        raise TranslateError("suspiciously small char table")
    return rows


def parse_rows(codes):
    src = strip_comments(read("src/physical_keyboard_layouts.rs"))
    vecs = {}
    for r in re.finditer(r"static ref (US_ROW_[A-Z]+)\s*:\s*Vec<KeyCode>\s*=\s*vec!\[(.*?)\];", src, re.S):
        keys = [k.strip() for k in r.group(2).split(",") if k.strip()]
        for k in keys:
            if k not in codes:
                raise TranslateError("row names unknown key " + k)
        vecs[r.group(1)] = keys
    rows = {}
    for r in re.finditer(r"res\.insert\(Row::(\w+)(?:\.clone\(\))?\s*,\s*&(US_ROW_[A-Z]+)\[(\d*)\.\.(\d*)\]\)", src):
        name, vec, lo, hi = r.group(1), r.group(2), r.group(3), r.group(4)
        if vec not in vecs:
            raise TranslateError("row slice of unknown vector " + vec)
        v = vecs[vec]
        lo = int(lo) if lo else 0
        hi = int(hi) if hi else len(v)
        if lo > hi or hi > len(v):
            raise TranslateError("row slice out of range (would panic at first use)")
        rows[name] = v[lo:hi]
    want = ["USQuertyGrave", "USQuerty1", "USQuertyQ", "USQuertyA", "USQuertyZ"]
    return [(w, rows.get(w)) for w in want]


def write_if_changed(path, content):
    os.makedirs(os.path.dirname(path), exist_ok=True)
    try:
        with open(path, encoding="utf-8") as f:
            if f.read() == content:
                return False
    except FileNotFoundError:
        pass
    with open(path, "w", encoding="utf-8") as f:
        f.write(content)
    return True


def parse_dump(path):
    """output of `tm-harness tables`: the real functions evaluated on their whole domain"""
    keys, chars, rows, builtins = [], [], {}, []
    ok = False
    for line in open(path, encoding="utf-8"):
        t = line.split()
        if not t:
            continue
        if t[0] == "KEY" and len(t) == 6:
            keys.append((t[2], int(t[1]), t[3], t[4] == "true", t[5] == "true"))
        elif t[0] == "CHAR" and len(t) == 4:
            chars.append((int(t[1]), t[2] == "true", int(t[3])))
        elif t[0] == "ROW":
            rows[t[1]] = [int(x) for x in t[2:]]
        elif t[0] == "BUILTIN" and len(t) >= 3:
            builtins.append((t[1], json.loads(line.split(" ", 2)[2])))
        elif t[0] == "END":
            ok = True
    if not ok or len(keys) < 100:
        raise TranslateError("table dump incomplete")
    return keys, chars, rows, builtins


def coq_str(u):
    """a Rust/JSON string as a TM.Json.str term (list of Unicode scalars)"""
    if all(32 <= ord(c) <= 126 and c != '"' for c in u):
        return '(lit "%s")' % u
    return "[" + "; ".join(str(ord(c)) for c in u) + "]%N"


def coq_json(v):
    if v is None:
        return "JNull"
    if v is True or v is False:
        return "(JBool %s)" % ("true" if v else "false")
    if isinstance(v, int):
        return "(JNum (Some (%d)%%Z))" % v if -2**63 <= v < 2**63 else "(JNum None)"
    if isinstance(v, float):
        return "(JNum None)"
    if isinstance(v, str):
        return "(JStr %s)" % coq_str(v)
    if isinstance(v, list):
        return "(JArr [" + "; ".join(coq_json(x) for x in v) + "])"
    if isinstance(v, dict):
        # serde_json's Map is a BTreeMap: sorted by key bytes
        items = sorted(v.items(), key=lambda kv: kv[0].encode("utf-8"))
        return "(JObj [" + "; ".join("(%s, %s)" % (coq_str(k), coq_json(x)) for k, x in items) + "])"
    raise TranslateError("unexpected JSON value %r" % (v,))


def main():
    dump = None
    if "--dump" in sys.argv:
        dp = sys.argv[sys.argv.index("--dump") + 1]
        if os.path.exists(dp):
            dump = parse_dump(dp)
    notes = []

    def from_text(what, f):
        try:
            return f()
        except TranslateError as e:
            if dump is None:
                raise
            notes.append("%s: source text not understood (%s); using the evaluated function" % (what, e))
            return None

    entries = from_text("key codes", parse_keycodes)
    if dump is not None:
        d_entries = [(i, n, sname) for i, n, sname, _, _ in dump[0]]
        if entries is None or sorted(entries) != sorted(d_entries):
            if entries is not None:
                notes.append("key codes: source text and evaluated table differ; using the evaluated table")
            entries = d_entries
    codes = {}
    for ident, num, _ in entries:
        codes[ident] = num
    names = {n: i for i, n in codes.items()}
    kt_src = read("src/key_transforms.rs")
    fl_src = read("src/fancy_layout_interpreting.rs")
    act = from_text("is_action_key", lambda: parse_bool_match(kt_src, "is_action_key", True))
    mod = from_text("is_modifier", lambda: parse_bool_match(fl_src, "is_modifier", True))
    if dump is not None:
        # canonical form: default = the majority answer, listed = the exceptions
        d_act = ({i: ia for i, n, sn, ia, im in dump[0] if not ia}, True)
        d_mod = ({i: im for i, n, sn, ia, im in dump[0] if im}, False)
        def same(a, d, default_of_d):
            if a is None:
                return False
            listed, default = a
            full = {i: listed.get(i, default) for i in codes}
            return all(full[i] == (d[0].get(i, default_of_d)) for i in codes)
        if not same(act, d_act, True):
            if act is not None:
                notes.append("is_action_key: source text and evaluated function differ; using the evaluated function")
            act = d_act
        if not same(mod, d_mod, False):
            if mod is not None:
                notes.append("is_modifier: source text and evaluated function differ; using the evaluated function")
            mod = d_mod
    act_listed, act_default = act
    mod_listed, mod_default = mod
    for n in list(act_listed) + list(mod_listed):
        if n not in codes:
            raise TranslateError("modifier table names unknown key " + n)
    chars = from_text("char table", lambda: parse_char_table(codes))
    if dump is not None:
        d_chars = [(c, sh, names[k]) for c, sh, k in dump[1] if k in names]
        if chars is None or sorted(chars) != sorted(d_chars):
            if chars is not None:
                notes.append("char table: source text and evaluated map differ; using the evaluated map")
            chars = d_chars
    rows = from_text("rows", lambda: parse_rows(codes))
    if dump is not None:
        want = ["USQuertyGrave", "USQuerty1", "USQuertyQ", "USQuertyA", "USQuertyZ"]
        d_rows = [(w, ([names[k] for k in dump[2][w]] if w in dump[2] else None)) for w in want]
        if rows is None or rows != d_rows:
            if rows is not None:
                notes.append("rows: source text and evaluated map differ; using the evaluated map")
            rows = d_rows

    hdr = "(* GENERATED by tools/translate.py from /repo — do not edit *)\n"
    hdr += "From Coq Require Import List NArith String.\nImport ListNotations.\nOpen Scope N_scope.\n\n"

    kt = hdr + "Definition key_table : list (string * N * string) := [\n"
    kt += ";\n".join("  (%s%%string, %d, %s%%string)" % (coq_string(i), n, coq_string(s)) for i, n, s in entries)
    kt += "\n].\n"
    write_if_changed(os.path.join(GEN, "KeyTable.v"), kt)

    def bool_fn(name, listed, default):
        exc = sorted(codes[k] for k, v in listed.items() if v != default)
        s = "Definition %s_exceptions : list N := [%s].\n" % (name, "; ".join(str(c) for c in exc))
        s += "Definition %s (k : N) : bool :=\n  if existsb (N.eqb k) %s_exceptions then %s else %s.\n\n" % (
            name, name, "false" if default else "true", "true" if default else "false")
        return s

    mo = hdr + bool_fn("is_action_key", act_listed, act_default) + bool_fn("is_modifier", mod_listed, mod_default)
    write_if_changed(os.path.join(GEN, "Modifiers.v"), mo)

    ct = hdr + "(* (unicode scalar, needs shift, key code) in source order *)\n"
    ct += "Definition char_table : list (N * bool * N) := [\n"
    ct += ";\n".join("  (%d, %s, %d)" % (c, "true" if sh else "false", codes[k]) for c, sh, k in chars)
    ct += "\n].\n"
    write_if_changed(os.path.join(GEN, "CharTable.v"), ct)

    rw = hdr + "(* Row slices of US_KEYBOARD_LAYOUT; None = row missing from the table *)\n"
    for name, keys in rows:
        if keys is None:
            rw += "Definition row_%s : option (list N) := None.\n" % name
        else:
            rw += "Definition row_%s : option (list N) := Some [%s].\n" % (name, "; ".join(str(codes[k]) for k in keys))
    write_if_changed(os.path.join(GEN, "Rows.v"), rw)

    if dump is not None:
        bl = "(* GENERATED by tools/translate.py from /repo (DEFAULT_LAYOUTS as serde_json parses them) - do not edit *)\n"
        bl += "From TM Require Import Json.\nFrom Coq Require Import List String.\nImport ListNotations.\nOpen Scope string_scope.\n\n"
        bl += "Definition builtin_layouts : list (string * json) := [\n"
        bl += ";\n".join('  ("%s", %s)' % (n, coq_json(j)) for n, j in dump[3])
        bl += "\n].\n"
        write_if_changed(os.path.join(GEN, "Builtins.v"), bl)

    tables = {
        "keys": [{"ident": i, "code": n, "serde": s} for i, n, s in entries],
        "is_action_false": sorted(codes[k] for k, v in act_listed.items() if not v) if act_default else None,
        "chars": [[c, sh, codes[k]] for c, sh, k in chars],
        "rows": {name: ([codes[k] for k in keys] if keys is not None else None) for name, keys in rows},
    }
    write_if_changed(os.path.join(HERE, "build", "gen", "tables.json"), json.dumps(tables, indent=0))
    write_if_changed(os.path.join(HERE, "build", "gen", "translate_notes.json"), json.dumps(notes))
    print("translate: %d key codes, %d chars, rows ok%s%s" % (len(entries), len(chars),
          " (from the evaluated tables)" if dump is not None else " (from the source text)", "; " + "; ".join(notes) if notes else ""))


if __name__ == "__main__":
    try:
        main()
    except TranslateError as e:
        print("TRANSLATE-ERROR: %s" % e)
        sys.exit(3)
