"""keyboard selection (engine: listing)"""

LISTING_TRUST = [
    "hand-written model coq/theories/Listing.v of src/keyboard_listing.rs (both extractors, parse_mask_hex, the heuristic) and of the selection code of src/remapping_loop.rs, over UTF-8 BYTES; tied to the code by the listing engine: both real extractors (through the cfg hooks) vs the extracted model on seeded device texts assembled from realistic entries with mutated field lines, names, masks",
    "the two Unicode tables of the model (White_Space for trim_end; ASCII A-Z and U+212A for to_lowercase().contains(\"keyboard\")) are validated on every run: exhaustive scan of all scalars with the real char::is_whitespace / char::to_lowercase selects the scalars swept through the correspondence",
    "oracles, NOT modelled (Section variables of the theorems): WildMatch (glob matching), the /sys walk dev_path_for_sysfs_name, std::fs::canonicalize; in the namespace run their recorded answers instantiate the model",
    "checkers Listing.local_ok / agree_ok / exclude_agree_ok / spec_all / spec_dev_file / no_virtual_listed (extracted, applied to the real code's outputs); the harness's entry splitter is validated against Listing.split_entries on every text",
    "gen/KeyTable.v (KeyCode::X as i32) regenerated from src/key_codes.rs on every run",
    "i32 overflow of token_index / num_keys is modelled as a panic (overflow-checked build); the wrapping behaviour of a release build on a single line of >= 64 MiB is outside the model",
]

LISTING_RULE = ("texts: the captured list of src/example_hardware.rs (parsed from the source at run time) verbatim and in seeded permutations; every library entry alone; "
                "seeded assemblies of 1-25 entries drawn from the captured entries and hand-written AT/USB keyboards (several interfaces), gaming mice with keyboard key maps, "
                "power/sleep buttons, lid/tablet switches, /devices/virtual/input devices (incl. 'totalmapper'), cros_ec, non-ASCII names, with field lines dropped/duplicated/"
                "shuffled/indented, name variants (case of keyboard/Mouse, Kelvin sign, trailing Unicode spaces, quotes), KEY/EV mask variants (upper case, empty tokens, +/-/0x, "
                ">16 digits, bit 63, borderline 17-23 keys), CRLF, missing final newline, preambles; a 'leak' family (full entry followed by one lacking N:/EV/S:); one text per "
                "swept Unicode scalar; exclusion cases (names x patterns); namespace scenarios (fabricated /proc, /sys, /dev). evaluations = model-vs-real comparisons "
                "(both extractors on whole texts and on every entry alone, both exclusion functions, namespace listings/selections); distinct_nontrivial = distinct texts "
                "with at least two entries in which the real extractor reports at least one keyboard and at least one non-keyboard device")

PROPS = {
    "C16": {
        "engines": ["listing"],
        "classes": ["KBD", "DEVS", "EXCL", "SELECT"],
        "clauses": ["C16"],
        "trusted": LISTING_TRUST,
        "rule": LISTING_RULE,
        "explanation": ("C16_local_kbd/dev (an entry's verdict depends only on its own lines, for every text), C16_agree (both extractors agree, every text), "
                        "C16_selection_all / C16_selection_dev_file / C16_selection_same (with oracles for glob, /sys, canonicalize: exactly the keyboard-like, non-virtual, "
                        "non-excluded devices with a node are selected, by either path, under the stated guards) and C16_no_panic are proved in Coq for the model; the model is "
                        "compared with both real extractors on every generated text and the extracted checkers are applied to the real outputs; the selection layer is "
                        "compared in a private mount namespace when unshare -m is available: the primary observation of a selection run there is which fabricated nodes of /dev/input the "
                        "child process opens (inotify; the loop opens the selected nodes in order and stops at the first failure, a fabricated node is a plain file), judged as 'only selected "
                        "nodes are opened and the first selected existing one is'; the verbose log is a secondary observation, used for the full comparison only when in every scenario of the run it "
                        "has the expected shape and agrees with the opens, otherwise counted (evidence key namespace_observations) and ignored - reworded messages are not a violation"),
        "assumptions": [
            "the generated device texts, names, masks and scenarios bound the correspondence, not the theorems",
            "--dev-file selection equals --all-keyboards selection only when canonical device paths are pairwise distinct and contain no '//' (the HashMap keeps the last entry per canonical path; see C16_dev_file_overwrite_example) and when no /sys lookup fails (list_input_devices looks up every non-virtual device, list_keyboards only keyboards)",
        ],
    },
}
