"""device-level monitor of the event loop (coq/theories/LoopDevice.v): additions to
C01, C02, C19 (defined in mapper.py; merged by props.py through EXTEND).  These
properties speak about what is held on the VIRTUAL KEYBOARD; their mapper engine
sees the events the mapper returns, this second engine sees what the real event
loop writes."""

DEVICE_TRUST = [
    "device-level monitor coq/theories/LoopDevice.v (device_check: one pass over a transcript of the loop keeping the specification mapper state for the inputs "
    "the transcript implies - a key event read while the tablet switch is off is a step, every tablet event a release-all -, the physically held keys, and the keys "
    "held on the device by the ACKNOWLEDGED sends; extracted and applied by ocaml/loop_check.ml to every transcript of the REAL do_remapping_loop_one_device recorded "
    "by the loop engine); theorems C01_loop_device_monitor_never_fires / C02_loop_device_in_step / C19_loop_device_no_redundant_event say it never fires on Loop.run, "
    "C01_device_monitor_hit_means says what a hit means on ANY transcript",
    "loop engine (shared with C10-C12, C20; its result is cached and reused): the real loop is run through the remapping_loop::verif hook against a scripted driver that "
    "simulates coq/theories/LoopEnv.v; of this engine these properties listen ONLY to their device clause (no OBS_* class of the loop: the comparison of the real "
    "calls with Loop.run belongs to C10-C12, C20)",
    "the specification side of the monitor is the model coq/theories/Mapper.v (mstep) - tied to src/key_transforms.rs by the mapper engine of the same property - "
    "not the real Mapper: a hit therefore means that what the real LOOP wrote does not match what the mapper MODEL holds for the inputs the loop read",
]

DEVICE_RULE = ("|| loop engine (second engine, device clause only): the cases of C10-C12/C20 - 5 fixed layouts + seeded random 2-4 mapping layouts with re-drawn Special "
               "repeats + the builtin layouts; key histories biased to chords with ill-formed events; seeded simulation of LoopEnv (batches 1-8, arrivals during reads, "
               "both device orders, spurious devices and time-outs, an interruption, tablet On/Off sequences, End of either device, script exhaustion) and the same run "
               "with an Err injected at the k-th driver call for every k; on EVERY recorded transcript of the real loop the extracted LoopDevice.device_check is run and "
               "each clause it reports is a violation")


def _ext(clause, what, theorems):
    return {
        "engines": ["loop"],
        "clauses": [clause],
        "trusted": DEVICE_TRUST,
        "rule": DEVICE_RULE,
        "assumptions": ["the generated environments and layouts limit the correspondence of the loop engine, not the theorems (all layouts accepted by for_layout, all answer scripts)"],
        "explanation": ("At the device (second engine, loop; clause %s): %s. Proved for every configuration of every run of Loop.run (%s; TM.LoopDeviceLemmas from the loop "
                        "invariant held_at - acknowledged sends plus the pending send are a well-formed trace to the mapper's held set - and state_at); byte-level form "
                        "C10_every_write_keeps_the_device_in_step. On the real code the extracted monitor runs over the transcripts the loop engine records, so a loop that "
                        "drops, repeats or re-orders a batch, or continues with another Mapper, is reported here although the Mapper itself is unchanged." % (clause, what, theorems)),
    }


EXTEND = {
    "C01": _ext("C01.device",
                "whenever the inputs read so far leave no key physically held, the acknowledged sends followed by the send being waited on leave no key down on the virtual keyboard",
                "C01_loop_no_stuck_keys_at_the_device, C01_loop_device_monitor_never_fires, C01_device_monitor_hit_means"),
    "C02": _ext("C02.device",
                "the keys down on the virtual keyboard after the acknowledged sends and the send being waited on are exactly held_all of the inputs read so far - the set "
                "C02_justified / _silenced_key / _trigger_consumed speak about",
                "C02_loop_device_held_is_mapper_held, C02_loop_device_in_step"),
    "C19": _ext("C19.device",
                "no send presses a key that is down on the virtual keyboard or releases one that is up, timer chords included",
                "C19_loop_no_redundant_event_written, C19_loop_device_no_redundant_event"),
}
