"""cross-layer clauses: a property stated about the mapper is delivered to the user through the loader
(layout file -> layout given to the mapper) and through the loop, the driver and the writer (mapper output ->
bytes on the virtual keyboard).  Merged by props.py through EXTEND."""

DEVICE_EVENTS_TRUST = (
    "realloop engine as a further engine of this property, clause DEVICE.key_events only: the key events decoded from the bytes the REAL loop with the REAL driver "
    "writes to the virtual-keyboard pipe must be the mapper model's events for the key events it read (extracted Pipeline.device_bytes_out; theorem "
    "C18_virtual_keyboard_sees_mapper_outputs on the model's side). A writer, driver or reader that drops, merges, duplicates or re-orders key events takes this "
    "property away from the user although the Mapper is unchanged")
DEVICE_EVENTS_EXPL = ("Further engine realloop (clause DEVICE.key_events): what reaches the virtual keyboard through the real reader, loop, driver and writer is the mapper's event sequence")

LAYOUT_TRUST = (
    "loader engine as a further engine of this property, clause LAYOUT.expansion only: the layout the mapper is GIVEN is the layout the file says - the real "
    "parse_layout_from_json + convert against the extracted specification ConvertSpec.expand on every generated layout (theorem C13_convert_refines_spec on the model's side). "
    "A conversion that resolves an alias to the wrong key, applies a repeat-only entry to the wrong mappings or drops a field changes what this property means for the user's file")
LAYOUT_EXPL = ("Further engine loader (clause LAYOUT.expansion): the mapper is given exactly the expansion of the layout file")

SEND_ERR_TRUST = (
    "realloop engine, send-error probes (clause C20.real_send_error): a failed write to the virtual keyboard (EPIPE; EAGAIN on a full queue, also for a batch that does not fit "
    "although its tail would) must end the real loop; a driver or writer that swallows the error goes on with a mapper state that is ahead of the device, and keys stay down "
    "or are released twice")
SEND_ERR_EXPL = ("Further engine realloop (clause C20.real_send_error): a swallowed write error leaves the device out of step with the mapper")


def dev():
    return {"engines": ["realloop"], "clauses": ["DEVICE.key_events"], "trusted": [DEVICE_EVENTS_TRUST], "explanation": DEVICE_EVENTS_EXPL}


def lay():
    return {"engines": ["loader"], "clauses": ["LAYOUT.expansion"], "trusted": [LAYOUT_TRUST], "explanation": LAYOUT_EXPL}


def merge(*ds):
    out = {}
    for d in ds:
        for k, v in d.items():
            if isinstance(v, list):
                out[k] = out.get(k, []) + [x for x in v if x not in out.get(k, [])]
            else:
                out[k] = (out.get(k, "") + " " + v).strip()
    return out


SEND = {"engines": ["realloop"], "clauses": ["C20.real_send_error"], "trusted": [SEND_ERR_TRUST], "explanation": SEND_ERR_EXPL}

EXTEND = {
    "C01": merge(dev(), SEND),
    "C02": merge(dev(), SEND, {"engines": ["loop"], "clauses": ["C11.only_then"],
                               "trusted": ["loop engine, clause C11.only_then as well: a repeat chord written when nothing repeats (e.g. because the mapper's repeat request after a release "
                                           "was lost) puts keys on the virtual keyboard that no physical key and no mapping in effect justifies, if only for the length of a tap"],
                               "explanation": "Loop clause C11.only_then: no chord is written that nothing justifies"}),
    "C14": {"engines": ["loop"], "clauses": ["C14.loop_panic"],
            "trusted": ["loop engine as a further engine of C14, clause C14.loop_panic: 'every layout that loading accepts can be … driven with any sequence of key events without panicking' includes the "
                        "event loop that drives it; the real do_remapping_loop_one_device under the scripted driver must not panic on any layout whose repeat timings are not negative "
                        "(theorem C14_event_loop_does_not_panic on the model's side; with a negative interval HEAD itself panics after about 500 ticks: C14_event_loop_panics_with_negative_interval, "
                        "a recorded fact about a layout the loader accepts, see section 8)"],
            "explanation": "Further engine loop (clause C14.loop_panic): the event loop does not panic on an accepted layout with non-negative repeat timings (zero included)"},
    "C03": merge(dev(), lay()),
    "C04": merge(dev(), lay()),
    "C05": merge(dev(), lay()),
    "C06": merge(SEND),
    "C07": merge(dev(), lay()),
    "C08": merge(dev()),
    "C09": merge(lay(), {"engines": ["loop"], "clauses": ["C11.schedule", "C11.only_then"],
                         "trusted": ["loop engine as a further engine of C09, clauses C11.schedule / C11.only_then: the repeat request of a step is what the event loop acts on; "
                                     "a loop that applies the requests of one wake-up late or only the last of them loses 'an ignored event leaves the repeat state unchanged' "
                                     "although Mapper::step returns the right request (theorems C11_schedule, C11_cancel_on_key_event on the model's side)"],
                         "explanation": "Further engine loop (clauses C11.schedule, C11.only_then): the loop acts on every step's repeat request at once"}),
    "C11": {"engines": ["wire"], "clauses": ["C12.switch_reader"],
            "trusted": ["wire engine as a further engine of C11, clause C12.switch_reader: 'for as long as no further key event or tablet-mode change arrives' - a switch reader that reports "
                        "a record of ANOTHER switch (lid, headphone, dock) as a tablet-mode change cancels a running repeat although nothing of the kind arrived; the real TabletModeSwitchReader "
                        "on generated record streams against the extracted TabletWire.check_switch_reader (theorem C12_switch_reader_exact on the model's side)"],
            "explanation": "Further engine wire (clause C12.switch_reader): only tablet-mode records are tablet-mode changes"},
    "C12": merge(dev()),
    "C18": {"clauses": ["DEVICE.key_events"],
            "trusted": ["realloop engine, clause DEVICE.key_events as well: 'for every batch of output events … one record per event' - a driver or writer that drops, merges or adds key records (not only one that writes malformed ones, C18.real_records) breaks C18; the fixed layout high-codes sends the keys at the upper end of the key table (576, 656, 700) and UNKNOWN (240) through the real reader, driver and writer"],
            "explanation": "Clause DEVICE.key_events of the realloop engine: every event of a batch arrives as a record"},
    "C19": merge(dev(), SEND),
}
