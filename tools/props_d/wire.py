"""wire-format property (engine: wire)"""

WIRE_TRUST = [
    "hand-written model coq/theories/Wire.v of StructSerializer::add_*, DevInputWriter::send and DevInputReader::next, tied to the code by the wire engine: bytes of the real writer on a pipe and events of the real reader from a pipe vs the extracted model, for every known key x {press, release} and seeded batches / record streams / garbage streams",
    "specification coq/theories/WireSpec.v (byte layout of struct input_event, what a reader must deliver, kernel-name mapping) and its extracted checkers applied to the real code's outputs",
    "coq/theories/SpecKernelKeys.v: pinned copy of the KEY_* numbering derived once from linux-libc-dev 6.1 input-event-codes.h (tools/gen_spec_kernel_keys.py; not read at check time)",
    "gen/KeyTable.v regenerated from enum KeyCode on every run; the harness checks that the codes the real FromPrimitive accepts are exactly that table",
    "libc::input_event (libc crate) as the layout oracle for records fed to the reader; size/offsets/endianness measured at run time and required to equal the model's assumptions",
    "pipes instead of /dev/uinput and /dev/input/event*: whole writes, reads of min(24, available) bytes, EAGAIN when drained",
]

PROPS = {
    "C18": {
        "engines": ["wire"],
        "classes": ["WRITE", "READ"],
        "clauses": ["C18"],
        "trusted": WIRE_TRUST,
        "rule": ("write side: the empty batch, every key code of KeyTable x {press, release} as a single-event batch (exhaustive, verified against "
                 "the table by the checker), all keys in one batch, seeded random batches of length 0..40 (some up to 200/400); each batch is written "
                 "by the real DevInputWriter into a pipe and the bytes are read back by the real DevInputReader; read side: streams of records laid "
                 "out by libc::input_event — every code 0..0x2ff (quick) / 0..0xffff (thorough) x value {0,1,2}, seeded mixtures with EV_SYN, EV_MSC, "
                 "value 2, unknown codes, out-of-range values and types, writer-shaped batches with foreign records interleaved — plus garbage / "
                 "truncated byte streams; evaluations = cases run on the real code and the model; distinct_nontrivial = distinct case inputs that "
                 "contain at least one event / record / byte; the engine's switch-reader cases (real TabletModeSwitchReader, class TABLET, clause "
                 "C12.switch_reader) are counted in evaluations but observed by C12, not by C18"),
        "explanation": ("C18_wellformed, C18_roundtrip, C18_reader_filters (every interleaving of foreign records), C18_reader_exact (any timestamps), "
                        "C18_reader_never_panics and C18_codes_are_kernel_codes are proved about the model for all batches / streams; the model is "
                        "compared with the real writer and reader on every generated case (classes WRITE, READ), and the extracted specification "
                        "checkers judge the real bytes and the real reader's answers (clauses C18.length/.record/.syn/.roundtrip/.reader). Composition (Pipeline.v): "
                        "C18_concatenated_batches_decode (a stream of any number of batches reads back as their concatenation), C18_reader_returns_only_known_keys, "
                        "C18_virtual_keyboard_sees_mapper_outputs and C18_no_stuck_keys_through_the_codec (for every loaded layout and every input byte stream, a reader of the "
                        "virtual keyboard sees exactly the mapper's event sequence)"),
        "assumptions": [
            "little-endian target and 24-byte struct input_event with time/type/code/value at offsets 0/16/18/20 (measured by the harness on every run; the check fails if they differ)",
            "write(2) on the uinput descriptor takes the whole buffer (send ignores the returned count); a device read delivers whole records (on a pipe a short final read is zero-padded by the reader, which the model reproduces)",
            "the kernel's KEY_* numbering is the pinned table SpecKernelKeys.v",
        ],
    },
}

# ---- second engine of C18: the records the real loop writes with the real driver over pipes (tools/engines/realloop.py)
PROPS["C18"] = dict(PROPS["C18"],
                    engines=["wire", "realloop"],
                    trusted=WIRE_TRUST + [
                        "realloop engine: the real per-device loop with the real RealDriver (mio/epoll, DevInputReader, DevInputWriter) runs in a child process over pipes; every byte it writes to the virtual-keyboard pipe is compared with the extracted Pipeline.device_bytes_out (= concat (map Wire.encode_batch sends) for the sends of the mapper model on the key events Wire.decode_stream finds in the bytes written to the keyboard pipe; coq/extract/Extract_realloop.v), the object of C18_virtual_keyboard_sees_mapper_outputs. Trusted there: pipes in place of evdev/uinput nodes, a no-progress deadline of 6 s as the only timing element.",
                    ],
                    rule=PROPS["C18"]["rule"] +
                    " || realloop engine: seeded key histories of 20-400 events on fixed, random and builtin layouts (no Special repeat), written as record "
                    "scripts with foreign records interleaved in write(2) calls of 1..=300 records to the real loop running on pipes; the whole output stream "
                    "(records of each send followed by one SYN_REPORT, in order) is compared byte for byte; evaluations += runs of the real loop",
                    explanation=PROPS["C18"]["explanation"] +
                    ". Second engine realloop: the records the REAL LOOP writes through the real DevInputWriter while reading through the real DevInputReader "
                    "under real epoll are compared byte for byte with the model's batches; a malformed record, a missing or an extra SYN_REPORT is reported as "
                    "clause C18.real_records with layout, history, batching and the first differing record (lost or duplicated key events are C10.real_epoll)")
