"""C17 (engine: escape)"""

PROPS = {
    "C17": {
        "engines": ["escape"],
        "classes": ["TEXT"],
        "clauses": ["C17"],
        "trusted": [
            "hand-written model coq/theories/Escape.v of src/udev_utils.rs (escape_one_char, systemd_arg_escape, build_exclude_text, build_service_text), tied to the code by the escape engine: byte-for-byte comparison of the unit text on every generated case, including every Unicode scalar value as a one-character pattern (sampled in the quick tier, complete in the thorough tier)",
            "hand-written oracle coq/theories/Systemd.v (how systemd 252 reads an ExecStart= value: UTF-8 cleanliness, word splitting, quotes, C escapes, lone ';', % specifiers, $ variables) and coq/theories/EscapeSpec.v (expected argument vector, c17_check); extracted and applied to the REAL unit text; accept/reject cross-checked against the installed systemd-analyze verify in the thorough tier only",
            "Rust's char::is_control = Unicode category Cc = U+0000..U+001F, U+007F..U+009F; char::encode_utf8 and the {:0>Nx} formatting as modelled in Escape.v (both exercised by the text comparison)",
        ],
        "rule": ("cases = lists of exclude patterns given to the real build_service_text: (sweep) every non-NUL Unicode scalar value as a one-character pattern, 64 patterns per case "
                 "[quick: all below U+3000, every 37th above, all 66 noncharacters and the neighbours of noncharacter/surrogate/plane boundaries; thorough: all 1 112 063]; "
                 "(single) one-scalar single-pattern cases; (pair) all ordered pairs over 82 syntax-relevant characters as one pattern; (hand) hand-written patterns; "
                 "(random) seeded random strings of length 1..12 over a syntax-heavy alphabet in lists of 0..5 patterns. evaluations = cases run through the real code and both checks; "
                 "distinct_nontrivial = number of distinct pattern lists among them other than a single pattern of ASCII letters and digits only"),
        "explanation": ("C17_exec_roundtrip / C17_unit_file_shape / C17_unit_roundtrip / C17_check_on_model are proved in Coq for every list of non-empty patterns over non-NUL scalar values, "
                        "every instance name without '$' and every environment (no bound on count or length): the model's unit text, read back by Systemd.decode, yields exactly --exclude <UTF-8 bytes of the pattern>. "
                        "The run ties the model to the code (class TEXT) and applies the extracted checker c17_check directly to the real code's unit text (clause C17.roundtrip), "
                        "under an environment with no variable set and one where every variable is set."),
        "assumptions": [
            "systemd is represented by coq/theories/Systemd.v; it is stricter than systemd 252 in three documented places (an unknown escape sequence rejects instead of being kept with a warning; anything after a lone ';' rejects; braceless $NAME inside a word is substituted)",
            "the instance name (%I) contains no '$' byte: systemd applies variable expansion to the expanded /%I as well",
            "patterns contain no NUL and are non-empty (an empty pattern leaves --exclude without its argument: outside the property's quantifier)",
            "specifier letters other than %i/%I that the installed systemd resolves are modelled as 'expands to something that is not the pattern'",
        ],
    },
}
