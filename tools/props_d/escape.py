"""C17 (engine: escape)"""

PROPS = {
    "C17": {
        "engines": ["escape"],
        "classes": ["TEXT"],
        "clauses": ["C17"],
        "trusted": [
            "hand-written model coq/theories/Escape.v of src/udev_utils.rs (escape_one_char, systemd_arg_escape, build_exclude_text, build_service_text), tied to the code by the escape engine's class TEXT on every generated case, including every Unicode scalar value as a one-character pattern (sampled in the quick tier, complete in the thorough tier). What class TEXT compares (extracted EscapeSpec.text_class_ok): the one ExecStart= value systemd finds in [Service] of the REAL unit text must end, byte for byte, with what the model writes from the exclude region on (build_exclude_text, then ' --dev-file /%I'), and the part in front of that must be, read alone by systemd's rules, an intact prefix. NOT compared and not tied to the code: the other lines of the unit (Description=, Type=, User=, Group=, blank lines, further settings or sections; Escape.service_header is the text at the time of writing and nothing depends on it) and the words of the front part of the line (program path, --verbose, layout path)",
            "hand-written oracle coq/theories/Systemd.v: how systemd 252 reads a unit FILE up to the ExecStart= values of [Service] (service_exec_starts: line ends, backslash continuation, comment lines also inside a continued line, byte order mark, sections, key=value, UTF-8 cleanliness; settings other than ExecStart= are read past, not interpreted) and how it reads an ExecStart= value (decode: word splitting, quotes, C escapes, lone ';', % specifiers, $ variables); coq/theories/EscapeSpec.v: the checker c17_check and the proposition c17_holds it decides (C17_check_sound, C17_check_complete); extracted and applied to the REAL unit text; accept/reject of decoder and file reader cross-checked against the installed systemd-analyze verify in the thorough tier only (the file reader's rules were also compared by hand with its messages)",
            "Rust's char::is_control = Unicode category Cc = U+0000..U+001F, U+007F..U+009F; char::encode_utf8 and the {:0>Nx} formatting as modelled in Escape.v (both exercised by the text comparison)",
        ],
        "rule": ("cases = lists of exclude patterns given to the real build_service_text: (sweep) every non-NUL Unicode scalar value as a one-character pattern, 64 patterns per case "
                 "[quick: all below U+3000, every 37th above, all 66 noncharacters and the neighbours of noncharacter/surrogate/plane boundaries; thorough: all 1 112 063]; "
                 "(single) one-scalar single-pattern cases; (pair) all ordered pairs over 82 syntax-relevant characters as one pattern; (hand) hand-written patterns; "
                 "(random) seeded random strings of length 1..12 over a syntax-heavy alphabet in lists of 0..5 patterns. evaluations = cases run through the real code and both checks; "
                 "distinct_nontrivial = number of distinct pattern lists among them other than a single pattern of ASCII letters and digits only. "
                 "Per case: (class TEXT) text_class_ok on the real text under both environments, see the trusted base; a real text with no or several ExecStart= assignments in [Service], with a different "
                 "exclude region or tail, or without an intact front part is a difference. unit_text_differs_outside_exec_start / exec_start_front_part_differs_from_model count accepted real texts that "
                 "differ from the model's full text in other lines / in the front part of the line (information, not a difference). (clause C17.roundtrip) c17_check on the real text: systemd finds exactly one "
                 "ExecStart= assignment in [Service] and reads it as pre ++ (--exclude <pattern bytes> for each pattern, in order) ++ (--dev-file /<instance>), where pre is not empty, has no word --exclude, "
                 "has --layout-file followed by a word and has --only-if-keyboard outside the place of that word. The checker demands nothing else: not the other lines of the unit, not the program path, "
                 "not --verbose, not the layout path"),
        "explanation": ("Proved in Coq for every list of non-empty patterns over non-NUL scalar values, every instance name without '$' and every environment (no bound on count or length): "
                        "C17_exec_roundtrip / C17_unit_file_shape / C17_unit_roundtrip / C17_check_on_model (the model's unit text: systemd finds one ExecStart= assignment, no pattern can break the line, start a comment "
                        "or a continued line or add an assignment; read back by Systemd.decode it yields exactly --exclude <UTF-8 bytes of the pattern>); C17_any_prefix (the same for ANY front part of the line "
                        "that systemd reads as complete words: the round trip does not depend on program path, --verbose or layout path); C17_check_sound / C17_check_complete (on an arbitrary text the checker "
                        "answers true exactly when the text has the property as stated); C17_text_class_on_model / C17_text_class_implies_check (the model passes the TEXT comparison and every text that passes it "
                        "has the property). The run ties the model to the code (class TEXT) and applies the extracted checker c17_check directly to the real code's unit text (clause C17.roundtrip), "
                        "under an environment with no variable set and one where every variable is set."),
        "assumptions": [
            "systemd is represented by coq/theories/Systemd.v; it is stricter than systemd 252 in four documented places (an unknown escape sequence rejects instead of being kept with a warning; anything after a lone ';' rejects; braceless $NAME inside a word is substituted; an empty ExecStart= counts as an assignment instead of emptying the list, so a unit with such a reset is refused)",
            "only the unit file itself is read: drop-in directories, lines longer than 1 MiB and the effect of other settings of the unit on how the command is run (Type=, Environment=, RootDirectory= ...) are not modelled; the environment is represented by the two samples 'no variable set' and 'every variable set to \"X Y\"' at run time and is universally quantified in the theorems",
            "the instance name (%I) contains no '$' byte: systemd applies variable expansion to the expanded /%I as well",
            "patterns contain no NUL and are non-empty (an empty pattern leaves --exclude without its argument: outside the property's quantifier)",
            "specifier letters other than %i/%I that the installed systemd resolves are modelled as 'expands to something that is not the pattern'",
            "'The surrounding arguments stay intact' is read as: they are still there as whole words in front of the exclude region (a program, --layout-file with a value, --only-if-keyboard, no stray --exclude) and --dev-file /<instance> directly after it; which program, which layout path and which further options is not part of the property",
        ],
    },
}
