"""additions that let a mapper property see a regression in the glue around the mapper
(merged by props.py through EXTEND)"""

EXTEND = {
    "C08": {
        "engines": ["loader"],
        "trusted": [
            "loader engine as second engine of C08: C08 starts from the layout the mapper is GIVEN; that the conversion of the shorthand layout hands over the written `absorbing` lists "
            "(C08_conversion_hands_over_the_specified_absorbing_lists, from C13_convert_refines_spec) is tied to the code by the loader engine: the real parse_layout_from_json + convert "
            "on every generated layout against the extracted specification ConvertSpec.expand; a real result with the specification's triggers and outputs but other absorbing lists is clause C08.absorbing_converted",
        ],
        "rule": ("|| loader engine (shared with C13-C15): only clause C08.absorbing_converted is observed by C08; its generator writes `absorbing` entries (a key, an alias, a list) on single and row mappings, "
                 "with and without later repeat-only entries for the same trigger"),
        "explanation": ("Second engine loader: an absorbing list lost or changed between the layout file and the mapper (fancy_layout_interpreting::convert, adjust_repeats) is reported as clause C08.absorbing_converted"),
    },
    "C05": {
        "engines": ["loop"],
        "clauses": ["C02.device"],
        "trusted": [
            "loop engine as second engine of C05 (device clause only, see C02): the extracted monitor coq/theories/LoopDevice.v on every transcript of the REAL do_remapping_loop_one_device; "
            "clause D_step = the keys down on the device after a write differ from the specification mapper's held set for the inputs read so far (theorem C05_loop_writes_leave_the_mapper_held_set: never on Loop.run)",
        ],
        "rule": ("|| loop engine (shared with C10-C12, C20 and the device clauses of C01, C02, C19): of this engine C05 listens only to clause C02.device; the cases include Special-repeat mappings whose "
                 "chord names keys that are held by another mapping or physically (timer ticks must not lift them)"),
        "explanation": ("Second engine loop: a write of the event loop itself (a custom-repeat chord that releases a key it did not press, a batch dropped or written twice) that lifts a foreign key "
                        "or an output of a mapping remaining in effect is reported as clause C02.device"),
    },
}
