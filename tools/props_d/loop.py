"""event-loop properties (engine: loop)"""

LOOP_TRUST = [
    "hand-written model coq/theories/Loop.v of do_remapping_loop_one_device (src/remapping_loop.rs), tied to the code by the loop engine: the real loop is run through the remapping_loop::verif hook against a scripted driver and Loop.run is run on the same answers; calls, send payloads, requested time-outs (tolerance = width of the wall-clock bracket + 5 ms) and return value are compared",
    "transcript checkers coq/theories/LoopMonitors.v (extracted, applied to the real loop's transcripts); the theorems say they never fire on Loop.run",
    "coq/theories/LoopEnv.v: edge-triggered device semantics (hand-written oracle), simulated by the harness' scripted driver",
    "the mapper facts the loop theorems need (invariant Inv preserved by step/release_all, output traces well-formed w.r.t. pass+mout, the state after release_all is bisimilar to init: MapperInv.v, MapperRefire.v) are proved, not assumed: the only premise of the C10-C12, C20 theorems is for_layout_ok L = true",
    "hand-written model coq/theories/Mapper.v of src/key_transforms.rs (tied to the code by the mapper engine)",
    "gen/Modifiers.v regenerated from is_action_key on every run",
]
LOOP_RULE = ("cases: 5 fixed layouts + seeded random 2-4 mapping layouts over {A,B,C,LEFTSHIFT,LEFTCTRL,CAPSLOCK} with re-drawn Special repeats "
             "(chords with held/duplicate/no keys; delays 400-2000 ms and intervals 200-1600 ms at least 200 ms apart; every 7th layout 1-3 ms so "
             "that ticks are late; every 17th negative) + the builtin layouts; key histories biased to chords with ill-formed events; "
             "environment = seeded simulation of LoopEnv (batches 1-8, arrivals during reads, both device orders, repeated and spurious devices, "
             "empty device list, spurious time-outs while idle, at most one interruption in the quick tier, tablet On/Off sequences incl. On/On and "
             "Off/Off, End of either device, script exhaustion); for a share of the cases the run is repeated with an Err injected at the k-th driver "
             "call for EVERY k; one case drives Instant overflow (negative interval, 500 ticks). evaluations = runs of the real loop; "
             "distinct_nontrivial = distinct (layout, transcript with time-outs blanked) among runs that sent something")
LOOP_ASSUME = [
    "the generated environments and layouts limit the correspondence, not the theorems (which hold for all layouts and all answer scripts of any length)",
    "overflow checks on (debug profile) for `1000 * (1 << restart_count)`; unreachable below 55 consecutive interruptions",
    "Instant is CLOCK_MONOTONIC in ns; `Instant + Duration` panics iff tv_sec leaves i64",
]


def loop_prop(classes, clauses, explanation):
    return {"engines": ["loop"], "classes": classes, "clauses": clauses, "trusted": LOOP_TRUST, "rule": LOOP_RULE,
            "assumptions": LOOP_ASSUME, "explanation": explanation}


PROPS = {
    "C10": loop_prop(["OBS_C10"], ["C10"],
                     "C10_*: on every transcript of Loop.run the sends are exactly the non-empty step outputs for the key events read, every poll finds all notified devices drained to Busy (no unread event without a pending readiness edge in LoopEnv), nothing follows End; observation OBS_C10 = key reads, sends not following a time-out, polls with the undrained flag, End, up to the first tablet event or Err"),
    "C11": loop_prop(["OBS_C11", "TIMEOUT"], ["C11"],
                     "C11_*: time-out requested = next_wakeup - now (1 ms when late) with next_wakeup = t0 + delay + (k-1)*interval independent of later readings, chord = non-held keys pressed in order and released in reverse leaving the held set unchanged, sent only directly after a TimedOut while repeating outside tablet mode, any acted key event or tablet event cancels; observation OBS_C11 = polls (with/without time-out), time-outs, sends following a time-out; TIMEOUT = requested time-outs within tolerance"),
    "C12": loop_prop(["OBS_C12"], ["C12", "C11.cancel", "C11.only_then"],
                     "C12_*: after On one send (omitted if empty) leaves nothing held, no send until Off, after a tablet event the loop behaves like a fresh mapper (which includes: no repeat timer survives it - clauses C11.cancel / C11.only_then are listened to as well, theorem C11_cancel_on_tablet_event); observation OBS_C12 = tablet events, the send following each, sends while the switch is on"),
    "C20": loop_prop(["OBS_C20"], ["C20"],
                     "C20_error_stops: an Err answer to any driver call is the last entry of the transcript and the return value; observation OBS_C20 = calls after the Err answer and the return value, with an Err injected at every call index"),
}
