"""event-loop properties (engine: loop)"""

LOOP_TRUST = [
    "hand-written model coq/theories/Loop.v of do_remapping_loop_one_device (src/remapping_loop.rs), tied to the code by the loop engine: the real loop is run through the remapping_loop::verif hook against a scripted driver and Loop.run is run on the same answers; calls, send payloads, requested time-outs (tolerance = width of the wall-clock bracket + 5 ms) and return value are compared",
    "transcript checkers coq/theories/LoopMonitors.v (extracted, applied to the real loop's transcripts); the theorems say they never fire on Loop.run",
    "what the loop is compared on does not include the mapper's choice of event order inside a batch: a send that directly follows a read and carries exactly what the REAL Mapper (one instance fed the transcript's inputs by the harness, RM lines) returned for that read is abstracted to 'the mapper's output for that read' on both sides, and a C10.sends / C12.off_fresh report of the extracted checker on such a send is filed as a difference of class MAPPER_MODEL (the mapper differs from its model: the business of C01-C09, C19 and their mapper engine), not as a failure of the loop",
    "coq/theories/LoopEnv.v: edge-triggered device semantics (hand-written oracle), simulated by the harness' scripted driver",
    "the mapper facts the loop theorems need (invariant Inv preserved by step/release_all, output traces well-formed w.r.t. pass+mout, the state after release_all is bisimilar to init: MapperInv.v, MapperRefire.v) are proved, not assumed: the only premise of the C10-C12, C20 theorems is for_layout_ok L = true",
    "hand-written model coq/theories/Mapper.v of src/key_transforms.rs (tied to the code by the mapper engine)",
    "gen/Modifiers.v regenerated from is_action_key on every run",
]
LOOP_RULE = ("cases: 5 fixed layouts + seeded random 2-4 mapping layouts over {A,B,C,LEFTSHIFT,LEFTCTRL,CAPSLOCK} with re-drawn Special repeats "
             "(chords with held/duplicate/no keys; delays 400-2000 ms and intervals 200-1600 ms at least 200 ms apart; every 7th layout 1-3 ms so "
             "that ticks are late; every 17th negative) + the builtin layouts; key histories biased to chords with ill-formed events; "
             "environment = seeded simulation of LoopEnv (batches 1-8, arrivals during reads, both device orders, repeated and spurious devices, "
             "empty device list, spurious time-outs while idle, at most one interruption in the quick tier, tablet On/Off sequences incl. On/On and "
             "Off/Off, End of either device, script exhaustion); for a share of the cases the run is repeated with an Err injected at the k-th driver "
             "call for EVERY k; one case drives Instant overflow (negative interval, 500 ticks). evaluations = runs of the real loop; "
             "distinct_nontrivial = distinct (layout, transcript with time-outs blanked) among runs that sent something")
LOOP_ASSUME = [
    "the generated environments and layouts limit the correspondence, not the theorems (which hold for all layouts and all answer scripts of any length)",
    "overflow checks on (debug profile) for `1000 * (1 << restart_count)`; unreachable below 55 consecutive interruptions",
    "Instant is CLOCK_MONOTONIC in ns; `Instant + Duration` panics iff tv_sec leaves i64",
]


def loop_prop(classes, clauses, explanation):
    return {"engines": ["loop"], "classes": classes, "clauses": clauses, "trusted": LOOP_TRUST, "rule": LOOP_RULE,
            "assumptions": LOOP_ASSUME, "explanation": explanation}


PROPS = {
    "C10": loop_prop(["OBS_C10"], ["C10"],
                     "C10_*: on every transcript of Loop.run the sends are exactly the non-empty step outputs for the key events read, every poll finds all notified devices drained to Busy (no unread event without a pending readiness edge in LoopEnv), nothing follows End; observation OBS_C10 = key reads, sends not following a time-out, polls with the undrained flag, End, up to the first tablet event or Err"),
    "C11": loop_prop(["OBS_C11", "TIMEOUT"], ["C11"],
                     "C11_*: time-out requested = next_wakeup - now (1 ms when late) with next_wakeup = t0 + delay + (k-1)*interval independent of later readings, chord = non-held keys pressed in order and released in reverse leaving the held set unchanged, sent only directly after a TimedOut while repeating outside tablet mode, any acted key event or tablet event cancels; observation OBS_C11 = polls (with/without time-out), time-outs, sends following a time-out; TIMEOUT = requested time-outs within tolerance"),
    "C12": loop_prop(["OBS_C12"], ["C12", "C11.cancel", "C11.only_then"],
                     "C12_*: after On one send (omitted if empty) leaves nothing held, no send until Off, after a tablet event the loop behaves like a fresh mapper (which includes: no repeat timer survives it - clauses C11.cancel / C11.only_then are listened to as well, theorem C11_cancel_on_tablet_event); observation OBS_C12 = tablet events, the send following each, sends while the switch is on"),
    "C20": loop_prop(["OBS_C20"], ["C20"],
                     "C20_error_stops: an Err answer to any driver call is the last entry of the transcript and the return value; observation OBS_C20 = calls after the Err answer and the return value, with an Err injected at every call index"),
}

# ---- second engine of C10: the real loop with the REAL driver over pipes (tools/engines/realloop.py)
REALLOOP_TRUST = [
    "realloop engine: what LoopEnv.v only ASSUMES (edge-triggered readiness + drain-until-Busy never loses an event) is tested against the kernel: the real do_remapping_loop_one_device runs with the real RealDriver (mio/epoll, DevInputReader, TabletModeSwitchReader, DevInputWriter; hook remapping_loop::verif::run_real_driver_on_fds) in a child process over three pipes, and the bytes it writes are compared with Pipeline.device_bytes_out L (bytes written to the keyboard pipe) — followed by Pipeline.device_bytes_tablet_on when a switch On is written — computed by the extracted definitions (coq/extract/Extract_realloop.v); these are the very functions the theorems C10_bytes_out_depend_only_on_events_read, C10_bytes_out_after_a_tablet_event, C10_no_stuck_keys_at_the_device and C18_virtual_keyboard_sees_mapper_outputs are about (coq/theories/Pipeline.v: reader, loop under any chunking, mapper, writer composed). Trusted there: pipes in place of evdev/uinput nodes (whole records only: the parent keeps the pipes far from full), the parent's bookkeeping of what it wrote, FIONREAD as the witness that input was read, a no-progress deadline of 6 s as the only timing element.",
]
REALLOOP_RULE = (" || realloop engine: 5 fixed layouts without Special repeat + seeded family_multi layouts with Special repeats replaced by Normal/Disabled "
                 "+ the builtin layouts; key histories of 20-400 events drawn as above; each history is turned into a record script (bare, or evdev-like "
                 "MSC_SCAN/key/SYN_REPORT triples with auto-repeat runs, or random EV_MSC/EV_SYN/value-2/unknown-code/EV_LED/EV_SW records interleaved) and "
                 "written to the keyboard pipe in write(2) calls of 1..=8, 1..=64, 1..=300 records, small writes followed by ONE final burst of 100-300 "
                 "records, or 300 at a time, with pauses of 0-3 ms; the tablet pipe is registered and idle, in half of the runs one EV_SW On is written "
                 "after all expected output was seen and the release-all batch is awaited; evaluations += runs of the real loop in a child process; "
                 "distinct_nontrivial += distinct (layout, record script) whose expected output is not empty")
PROPS["C10"] = dict(PROPS["C10"],
                    engines=["loop", "realloop"],
                    trusted=LOOP_TRUST + REALLOOP_TRUST,
                    rule=LOOP_RULE + REALLOOP_RULE,
                    explanation=PROPS["C10"]["explanation"] +
                    ". Bytes level (Pipeline.v): for every byte stream on the keyboard device and every chunking, the bytes written are device_bytes_out of the byte prefix that was read, reading them back with the tool's own reader gives the mapper's event sequence, and when every physical key is up again nothing is left down on the virtual keyboard (C10_bytes_out_*, C10_no_stuck_keys_at_the_device*, C10_every_write_keeps_the_device_in_step: every write incl. timer chords keeps the device in step with the mapper's bookkeeping). Second engine realloop: the same statement is checked end to end on the real loop with the real epoll driver over pipes "
                    "(any batching of the input into write(2) calls gives exactly the bytes of the model's sends; nothing stays unread while the loop "
                    "sleeps; nothing is written after the end); a deviation is reported as clause C10.real_epoll with layout, history, batching and the "
                    "first differing record. A difference that is exactly what the in-process real Mapper computes is reported in class MAPPER_MODEL instead, which no loop property observes "
                    "(the mapper differs from its model, the loop transported it faithfully)",
                    assumptions=LOOP_ASSUME + ["realloop: a pipe never reports ENODEV, so end-of-device is exercised by the loop engine only; the child is killed at the end of each run"])

# ---- second engine of C12: the decoding of the tablet-mode switch device (tools/engines/wire.py, class TABLET)
PROPS["C12"] = dict(PROPS["C12"],
                    engines=["loop", "wire"],
                    classes=PROPS["C12"]["classes"] + ["TABLET"],
                    trusted=LOOP_TRUST + [
                        "hand-written model coq/theories/TabletWire.v of TabletModeSwitchReader::next (src/tablet_mode_switch_reader.rs), tied to the code by the wire engine: the REAL TabletModeSwitchReader { fd } on the read end of a non-blocking pipe vs the extracted decode_tablet_run (class TABLET), and its answers judged by the extracted check_switch_reader = tablet_events_of (clause C12.switch_reader); records laid out by libc::input_event (size/offsets/endianness measured on every run and required to equal the model's assumptions); pipes in place of the evdev switch node (reads of min(24, available) bytes, EAGAIN when drained).",
                    ],
                    rule=LOOP_RULE +
                    " || wire engine (switch reader): the empty stream; every (type in {0,1,2,3,4,5,0x11,0x14,0xffff}) x (code in {0,1,2,5,0xffff}) x (value in "
                    "{-1,0,1,2,i32::MIN,i32::MAX}) as a single record (exhaustive, verified by the checker), the whole grid in one stream, every grid record between "
                    "two of the writer's key records, seeded mixtures with the writer's own key records, SYN_REPORT, other switches and random records, streams "
                    "truncated 1..23 bytes before the end, garbage; evaluations += streams run through the real reader and the model",
                    explanation=PROPS["C12"]["explanation"] +
                    ". Second engine wire: the tablet events the loop reads (next_tablet) are decoded from the switch device by TabletModeSwitchReader::next; "
                    "C12_switch_reader_exact (for every record sequence exactly the EV_SW/SW_TABLET_MODE records with value 1/0 as On/Off, in order) and "
                    "C12_switch_reader_never_panics (any byte stream) are proved about the model TabletWire.v, the model is compared with the real reader on "
                    "every generated stream (class TABLET) and the extracted specification checker judges the real reader's answers (clause C12.switch_reader)",
                    assumptions=LOOP_ASSUME + [
                        "switch reader: little-endian target and 24-byte struct input_event with type/code/value at offsets 16/18/20 (measured by the harness on every run; the check fails if they differ); a device read delivers whole records (on a pipe a short final read is zero-padded by the reader, which the model reproduces)",
                    ])

# ---- second engine of C11: the poll adapter of the real driver under a signal (tools/engines/realloop.py, probe "signal-while-waiting")
PROPS["C11"] = dict(PROPS["C11"],
                    engines=["loop", "realloop"],
                    trusted=LOOP_TRUST + [
                        "realloop engine, poll-adapter probes (hook remapping_loop::verif::real_driver_poll_once): the C11 theorems count on the driver ANSWERING Interrupted when a handled signal ends epoll_wait early (Loop.v then recomputes the time left to the next repeat: C11_schedule_no_drift); the probe runs RealDriver::register_poll + poll on idle pipes with a 1000 ms time-out, sends SIGUSR1 (handler without SA_RESTART) to the polling thread after 400 ms and requires the answer Interrupted; an adapter that waits again by itself is recognised by the answer TimedOut no earlier than signal time + time-out (three attempts, all must be wrong; an answer TimedOut at about the time-out means the signal missed the wait and counts as no information)",
                    ],
                    rule=LOOP_RULE + " || realloop engine (shared with C10): only its poll-adapter probes are observed by C11 (clause C11.real_interrupt); the runs of the real loop over pipes use layouts without Special repeat and are observed by C10/C18",
                    explanation=PROPS["C11"]["explanation"] +
                    ". Second engine realloop: the one thing about timing the scripted driver cannot show - what the real mio/epoll adapter answers when a signal interrupts the wait - is probed on the real RealDriver (clause C11.real_interrupt)",
                    assumptions=LOOP_ASSUME + ["realloop probe: SIGUSR1 is free for the harness process to handle; on a machine so loaded that the signal cannot be delivered during a 1000 ms wait in three attempts the probe gives no information (never a hit)"])

# ---- second engine of C20: a write error of the real driver (tools/engines/realloop.py, probe "output-gone-on-send")
PROPS["C20"] = dict(PROPS["C20"],
                    engines=["loop", "realloop"],
                    trusted=LOOP_TRUST + [
                        "realloop engine, send-error probe: the C20 theorems are about Loop.run given an Err answer of the driver; that the REAL driver (RealDriver::send -> DevInputWriter::send -> write(2)) turns an I/O error into that Err answer is probed on the real loop in a child process over pipes: the read end of the virtual-keyboard pipe is closed, one key press is written to the keyboard pipe, and the child must end with the loop's Err (exit code 11) within 4 s (Rust ignores SIGPIPE, so write(2) fails with EPIPE); a child still running after 4 s, or ending any other way, is clause C20.real_send_error",
                    ],
                    rule=LOOP_RULE + " || realloop engine (shared with C10): only its send-error probe is observed by C20 (clause C20.real_send_error)",
                    explanation=PROPS["C20"]["explanation"] +
                    ". Second engine realloop: one real I/O error (EPIPE on the virtual keyboard) through the real driver must stop the real loop (clause C20.real_send_error); a read error or ENODEV cannot be produced on pipes",
                    assumptions=LOOP_ASSUME + ["realloop probe: EPIPE stands for the class of write errors; ENODEV and read errors of an evdev node cannot be produced in the sandbox"])
