"""engine cli: the REAL binary end to end (additions to C15, C16, C17; merged by props.py through EXTEND)"""

CLI_TRUST = (
    "cli engine (tools/engines/cli.py, _cli_ns.py, _realbin.py): the real binary, built from the working tree with `cargo build --offline` and the verification cfg OFF, "
    "run as a child in a private mount namespace (`unshare -m`, all mounts made private first). Faked inside the namespace only: /etc is a fresh tmpfs per run holding a copy of "
    "the sandbox's /etc (with /etc/udev/rules.d and /etc/systemd/system created, optionally a pre-existing input group / totalmapper user / stale output files), /dev is a tmpfs "
    "in which /dev/uinput is a plain file (the code under test only stat()s, chowns and chmods it), /var/log and /var/mail are empty tmpfs; `systemctl` and `udevadm` are replaced "
    "by a logging stub that exits 0 (bind mount over the installed file, or a new file in an overlay over /usr/sbin when the program is not installed, as udevadm here). "
    "getent, groupadd, id, adduser/useradd, usermod, chown, chmod are the real programs acting on the private /etc and /dev. Every run has a 10 s limit; a run that hits it is "
    "repeated once, alone (the real user-management programs stalled once in about 3000 runs on the busy sandbox), and only the repetition is judged. A run that exits non-zero or leaves no file on an argv "
    "the command line accepts is reported as a violation, so a sandbox in which these programs fail would alarm. When `unshare -m true` fails the engine gives NO verdict "
    "(evidence key cli_namespace_run says 'skipped', zero cli evaluations) and the glue in src/main.rs is then covered by nothing."
)

ENGINE_TEXT = {
    "cli": ("end to end: the real binary (built from /repo's working tree without the verification cfg) is run in private mount namespaces with a private /etc, /dev and "
            "fabricated /proc/bus/input/devices, /sys/devices, /dev/input; the files it installs and the selection it reports are judged by the extracted Coq models and "
            "checkers of the escape and listing engines (ocaml/escape_check.ml, ocaml/listing_check.ml) and by the real loader (tm-harness cli-load); skipped when `unshare -m` is unavailable"),
}

EXTEND = {
    "C17": {
        "engines": ["cli"],
        "classes": ["UNIT_TEXT"],
        "trusted": [CLI_TRUST],
        "rule": ("cli engine: `totalmapper add_systemd_service (--default-layout N | --layout-file F) [--exclude P]...` with argv given as raw bytes, the layout option placed "
                 "anywhere among the excludes, each pattern spelled `--exclude P` or `--exclude=P` (always the latter when P starts with '-' and is not '-': clap 3.0.0-rc.7 refuses "
                 "`--exclude -x`, `--exclude --`, `--exclude --verbose`, invalid UTF-8, two values after one --exclude, abbreviated options; such argv are run too and what the binary does "
                 "is recorded under cli_argv_and_layouts_expected_to_be_refused, never judged). Pattern lists: hand-written lists (empty, duplicates, order-sensitive, 8 patterns), "
                 "hand-written single patterns ($, %, quotes, backslashes, ';', leading dashes, option look-alikes, '=' and ',', line breaks, Unicode spaces, noncharacters), "
                 "syntax-relevant ASCII and wide characters as one-character patterns (quick: 51 of the 62 in lists of 12; thorough: each of the 62 alone, plus all 127 non-NUL ASCII characters in lists of 8), "
                 "ordered pairs over the 43 syntax-relevant ASCII characters in lists of 16 (quick: 48 pairs; thorough: all 1849), seeded random lists of 0-6 random patterns "
                 "(quick 8, thorough 300; x5 under the search budget). Quick: about 50 runs; thorough: about 630. For every run the unit it installs "
                 "(whatever *.service file the run creates or rewrites below /etc/systemd/system: /etc/systemd/system/totalmapper@.service if it is among them, else the only one; evidence key "
                 "cli_installed_unit_files; a run that installs none on an accepted argv is a violation) must pass, for exactly the command line's patterns in order, the escape engine's two extracted "
                 "judgements: text_class_ok (exactly one ExecStart= in [Service], whose value ends byte for byte with the model's text from the exclude region on, after an intact prefix; the other "
                 "lines of the unit are not compared) and c17_check under both environments (clause C17.cli_unit)."),
        "explanation": ("The cli engine adds what no library-level check sees: clap's definition of --exclude (repeatable, one value each), the collection of the values in main.rs, "
                        "their forwarding to udev_utils::add_systemd_service and write_systemd_service's writing of build_service_text to the fixed path (clause C17.cli_unit)."),
    },
    "C15": {
        "engines": ["cli"],
        "trusted": [CLI_TRUST],
        "rule": ("cli engine: the same runs of the real `totalmapper add_systemd_service`; layouts: the builtin layouts as listed by the real `list_default_layouts` (--default-layout), "
                 "the JSON files of /repo/working/syntax-examples, the README's JSON blocks, three hand-written files (aliases, rows, Special repeat with chords of 0-2 keys and "
                 "delay/interval -5, -1, 0, 1, 65536, 2^31-1, -2^31, absorbing lists, an empty layout) and seeded shorthand layouts (quick 22, thorough 60; aliases with several definitions, rows with letters, "
                 "every repeat form, absorbing, files with spaces/quotes/%/$/non-ASCII in their names) as --layout-file; every source is used at least once, some runs start with a "
                 "stale 500 kB /etc/totalmapper.json, unit file and udev rule. The installed layout file (the path the installed unit's --layout-file argument names, /etc/totalmapper.json; evidence key cli_installed_layout_files) "
                 "is loaded with the real layout_loading::load_layout_from_file (tm-harness cli-load) and "
                 "must equal, mapping by mapping, the layout the command line names (the same function on F, or DEFAULT_LAYOUTS[N] -> serde_json::from_str -> parse_layout_from_json -> convert) "
                 "(clause C15.cli_saved_file). Both sides use the working tree's loader: this clause sees the save path and the glue, not the loader."),
        "explanation": ("The cli engine adds main.rs's load_layout (which source is loaded for --default-layout / --layout-file) and udev_utils::write_layout_to_global_config "
                        "(open with truncation, serde_json::to_writer_pretty through a BufWriter to /etc/totalmapper.json) as run by the real binary (clause C15.cli_saved_file)."),
    },
    "C16": {
        "engines": ["cli"],
        "trusted": [CLI_TRUST + " For C16 the namespace is the one of `tm-harness listing-ns` (tmpfs over /sys/devices and /dev, a file bound over /proc/bus/input/devices; the "
                    "selected 'devices' are plain files, so opening them as evdev fails at once; every child runs under `timeout 20`). The judgement rests on inotify's IN_OPEN events for "
                    "that directory and on the reading of do_remapping_loop_these_devices / do_remapping_loop_auto_all_devices stated in the rule (open in order, stop at the first failure / open all): "
                    "an implementation that opened devices in another order would still pass as long as it opens the first selected node and only selected ones."],
        "rule": ("cli engine: namespace scenarios of the listing generator (quick 6, thorough 120; x5 under the search budget) whose exclude patterns are replaced by 1-3 patterns of which at least one "
                 "is likely to match a keyboard of the scenario ('*', '*eyboard*', a keyboard's name or a prefix of it) plus device names, suffix globs and patterns with spaces/quotes/$/%; "
                 "every scenario is run once per entry of its device list (quick: at most 6), that entry rotated to the front of the fabricated /proc/bus/input/devices, with --dev-file "
                 "arguments = the node of every entry in the same order followed by the scenario's own odd arguments (symlinks, '//', missing nodes). The real binary is run as `list_keyboards`, "
                 "`remap --default-layout caps-for-movement --all-keyboards --verbose --exclude P...`, `remap ... --only-if-keyboard --verbose --exclude P... --dev-file D...` and, once per "
                 "scenario, `remap ... --auto-all-keyboards ...` (never returns: SIGKILL once the process sleeps and nothing was opened for 0.25 s, 3 s at most; about 0.3 s). PRIMARY observation: "
                 "which fabricated nodes of /dev/input the run OPENS (inotify IN_OPEN on the directory, set up after the nodes exist; nothing else opens them: list_keyboards and "
                 "filter_devices_verbose only read /proc and /sys and canonicalize). do_remapping_loop_these_devices opens the selected nodes in order and stops at the first failure and a "
                 "fabricated node is a plain file, so --all-keyboards / --dev-file open exactly the first selected node that exists (nothing if nothing is selected) and the auto mode opens every "
                 "selected node. Judged against the extracted listing model's selection for the same (rotated) text, patterns and recorded oracles (WildMatch, /sys walk, canonicalize): only "
                 "selected nodes may be opened and the first selected one must be (auto mode: exactly the selected existing nodes); the extracted spec_all / spec_dev_file / no_virtual_listed "
                 "are applied to the opens in the same way (clause C16.cli_excludes). SECONDARY observation: the verbose log (' * \"path\" (excluded)' lists, 'Remapping N devices.', "
                 "'Skipping ...'), used for the full listing comparison only if in EVERY scenario of the run it has the expected shape (header, nothing but list lines, a count equal to the entries "
                 "it reports as selected) and agrees with the opens; otherwise it is counted (cli_verbose_log_unparsed, cli_verbose_log_contradicting_the_opens) and every log-based judgement "
                 "is dropped - the property says nothing about log text. `list_keyboards` output is compared only when every line has the shape '<name>: /dev/...'. "
                 "Clause C16.cli_modes_agree, on the same observations: the union over the rotations of what --all-keyboards opens equals what --auto-all-keyboards opens (subset when the "
                 "rotations were capped), and so does the union for --dev-file when no /sys lookup of the scenario fails and every entry has its own sysfs path (the guards of "
                 "C16_selection_same; 82 of 120 thorough scenarios); secondarily, the two logs flag the same devices."),
        "explanation": ("The cli engine adds the dispatch of `remap` in main.rs (the --exclude / --dev-file / --only-if-keyboard / --all-keyboards definitions and their forwarding to "
                        "do_remapping_loop_all_devices / do_remapping_loop_multiple_devices / do_remapping_loop_auto_all_devices) in the quick tier as well (clause C16.cli_excludes), "
                        "and the statement's 'the answer is the same whichever way devices are named' on the real binary for all three ways (clause C16.cli_modes_agree)."),
    },
}
