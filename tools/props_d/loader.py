"""loader properties C13, C14, C15 (engine: loader)"""

LOADER_TRUST = [
    "hand-written models coq/theories/Parser.v (layout_parsing_formatting.rs), Convert.v (fancy_layout_interpreting.rs), Serde.v (derive(Serialize) of keys::Layout), tied to the code by the loader engine: the real parse_layout_from_json+convert, serde_json::to_value and the reload are compared with the extracted model on every generated case (Ok payload / Err / Panic)",
    "extracted checkers coq/theories/LoaderCheck.v applied to the real outputs (C13.expand uses the specification ConvertSpec.expand and the hand-written keyboard SpecTables.v)",
    "gen/KeyTable.v, CharTable.v, Rows.v, Modifiers.v regenerated from /repo on every run",
    "serde_json text <-> Value and serde's derive are not modelled (the harness checks to_string_pretty+from_str = to_value on every accepted layout)",
    "str::to_uppercase/to_lowercase are modelled exactly only where the image meets ASCII (17+2 scalars enumerated from rustc 1.95's tables); validated by substituting every cased scalar (thorough: every scalar) into row and repeat names",
]
LOADER_RULE = ("cases: grammar-based valid shorthand layouts (0-3 alias/plain modifiers, 1-3 definitions per alias, single/row/repeat-only, every row, "
               "letters over the 95 printable ASCII characters, every repeat form, absorbing, both spellings), the builtin layouts, README and "
               "working/syntax-examples JSON blocks, hand-written weak-spot families, 2 structure-aware mutants per valid layout + mutants of the corpus, "
               "arbitrary JSON, random basic layouts over all key codes serialised with serde (and every key code once in every position), "
               "every key name/serde name + near misses, single-scalar substitutions in row/repeat names; every accepted layout is saved with serde, "
               "reloaded, installed with Mapper::for_layout and driven with 40 random events under catch_unwind; every input value is also written as a "
               "layout FILE (pretty / compact / re-spaced text; row letters biased towards JSON syntax characters: backslash or quote last, comma before a "
               "closing bracket) and read by the real load_layout_from_file, whose answer must be the in-memory one (clauses C13.file_load, C15.file_load) and "
               "never a panic (C14.file_panic, also on ~14 k generated texts: malformed files with non-ASCII characters around the error byte, long lines, "
               "late lines, invalid UTF-8, truncations). evaluations = cases + substitutions; "
               "distinct_nontrivial = distinct input texts whose top level is an object holding a non-empty array (counted by the checker)")


C15_TRUST = [t for t in LOADER_TRUST if not t.startswith("serde_json text <-> Value")] + [
    "hand-written model coq/theories/JsonText.v of serde_json 1.0.128's text layer (ser.rs PrettyFormatter/CompactFormatter, format_escaped_str, itoa; de.rs "
    "deserialize_any/parse_integer/parse_decimal/parse_exponent/f64_from_parts/SeqAccess/MapAccess/end, read.rs parse_str/parse_escape/decode_hex_escape, "
    "core::str::from_utf8, BTreeMap insertion), tied to the crate by the loader engine's class TEXT: bytes of the real printers against print_pretty / "
    "print_compact / save_text, outcomes of the real readers against parse_text on generated texts, the real load_layout_from_file against load_text",
    "JNum None (floats, u64 above i64::MAX) has no printer in the model: print_pretty is claimed and compared only for values without such numbers (the "
    "reader model does read them); serde's derive(Serialize) is modelled by JsonText.ser_layout (field order) + Serde.to_json, compared with the real bytes",
    "file I/O of write_layout_to_global_config / load_layout_from_file (open, BufWriter/BufReader, the path /etc/totalmapper.json) is not modelled; the harness "
    "writes and reads real files in its work directory",
]
C15_RULE = LOADER_RULE + ("; TEXT stream (harness/src/engines/loader_text.rs, seeded): serde_json's own pretty/compact output of generated values (floats "
                          "included), a hand-written emitter with random whitespace and random escape spellings (\\uXXXX in both cases, surrogate pairs, short "
                          "escapes, \\/), the number grammar (limits of i64/u64, long integers, fractions, exponents up to overflow), every escape incl. lone "
                          "surrogates and bad escapes, duplicate and unsorted keys, nesting 120..131, byte-level mutations (truncation, trailing garbage, "
                          "insertions), valid and invalid UTF-8 inside and outside strings, malformed layout files, re-spaced / compacted / mutated saved layouts; "
                          "text_cases_by_kind_ok_err gives the distribution")
C15_ASSUMPTIONS = ["the generators bound the correspondence, not the theorems; the text layer is modelled for serde_json 1.0.128 with the features of Cargo.lock "
                   "(std only) and tied to it by correspondence, not verified against its source"]


def loader_prop(classes, clauses, **kw):
    d = {"engines": ["loader"], "classes": classes, "clauses": clauses, "trusted": LOADER_TRUST, "rule": LOADER_RULE,
         "assumptions": ["the generators bound the correspondence, not the theorems; bytes -> serde_json::Value is trusted"]}
    d.update(kw)
    return d


PROPS = {
    "C13": loader_prop(["LOAD"], ["C13"],
                       explanation=("C13: PROVED for every fancy layout f (parsed or not): Convert.convert f = ConvertSpec.expand f as outcomes Ok/Err/Panic "
                                    "(C13_convert_refines_spec; also C13_convert_core_refines_spec for the part before the duplicate-key rejection), where expand is the "
                                    "declarative expansion over the hand-written US-QWERTY keyboard of SpecTables.v (one mapping per non-space letter and per combination of "
                                    "alias definitions, first slot fastest; Shift per the keyboard, right Shift if the trigger contains it; output-side aliases replaced by the "
                                    "trigger-side choice; source order; repeat-only entries set the repeat of mappings with the same trigger set or add an identity mapping, "
                                    "decision 9.2). Table theorems by vm_compute on the regenerated tables (C13_char_table_is_usqwerty for every scalar, C13_rows). "
                                    "C13_written_out: if a file loads to L, the file listing L's mappings key by key (serde form) loads to L. Spellings: C13_spellings_singleton "
                                    "(bare value = one-element array for from / to / row to / Special keys / absorbing), C13_spellings (for every JSON value, unwrapping all such "
                                    "arrays changes neither parse_layout nor load), C13_spellings_names (row names depend only on the upper-case form, repeat names on the "
                                    "lower-case form; the five row names and normal/disabled in lower, capitalised and upper case by computation). "
                                    "On every run the real convert is compared with the extracted expand on every generated layout (clause C13.expand)")),
    "C14": loader_prop(["LOAD"], ["C14"],
                       explanation=("C14: PROVED C14_loader_total (for every serde_json::Value j and site, load j <> Panic site: every modelled indexing, slicing, len()-1, "
                                    "quantities[i]-1, unwrap, from_table index and the model's loop fuel is unreachable), C14_converter_total (the same for convert on every fancy "
                                    "layout), C14_parser_total, C14_odometer_total, and C14_accepted_is_wf (load j = Ok L -> Mapper.for_layout_ok L: triggers non-empty, no duplicate "
                                    "key in one from/to). Mapper half (lemmas in MapperTotal.v): C14_mapper_constructor_total (for_layout_ok L <-> every trigger non-empty and from/to NoDup, i.e. "
                                    "exactly the negation of for_layout's panic conditions) and C14_mapper_index_loops_in_range (in every mapper state and for every key the two "
                                    "reverse index loops with remove_mapping never index active_mappings out of range; the other mapper operations are total by construction). "
                                    "Bytes -> Value (serde_json) is trusted. On every run the real loader, for_layout and step run under catch_unwind on every case "
                                    "(clauses C14.panic, C14.accepted_wf)")),
    "C15": loader_prop(["LOAD", "SERDE", "TEXT"], ["C15"],
                       trusted=C15_TRUST, rule=C15_RULE, assumptions=C15_ASSUMPTIONS,
                       explanation=("C15: PROVED C15_roundtrip (for every basic layout L with LoaderCheck.wf_basic L — non-empty duplicate-free triggers, duplicate-free outputs, "
                                    "every key a code of the regenerated key table, i32 delay/interval, absorbing keys among the trigger's modifiers; any length, any repeat incl. "
                                    "Special with empty or multi-key chords, empty outputs — load (Serde.to_json L) = Ok L), C15_loaded_is_wf_basic (every layout the loader "
                                    "returns, for any JSON value, satisfies wf_basic, so the guard covers everything the converter can produce from a file), "
                                    "C15_saved_layout_reloads (load j = Ok L -> load (to_json L) = Ok L), C15_key_names (all 484 entries of the regenerated table: serde name and "
                                    "variant name parse back to the code, serde writes that name, names distinct) by vm_compute. Serde.to_json is the hand-written model of "
                                    "derive(Serialize), compared with the real serde_json::to_value on every accepted layout and on random basic layouts over all key codes; "
                                    "the real reload is compared as well (clause C15.roundtrip). TEXT LEVEL (JsonText.v, JsonTextLemmas.v): C15_saved_text_reloads — for every "
                                    "wf_basic layout L, load_text (save_text L) = Ok L, where save_text is the byte sequence serde_json::to_writer_pretty writes for the "
                                    "layout (struct fields in declaration order, PrettyFormatter) and load_text is serde_json's reader into Value (parse_text) followed by "
                                    "parse_layout_from_json + convert, i.e. load_layout_from_file on a file with these bytes; C15_loaded_then_saved_text_reloads / "
                                    "C15_loaded_text_then_saved_text_reloads (the same for every layout loaded from a Value / from a text); C15_text_roundtrip_any_value — for "
                                    "EVERY printable value v (numbers within i64, strings and keys of Unicode scalars) nested less than 128 deep, parse_text (print_pretty v) = "
                                    "parse_text (print_compact v) = Some (canon v), canon = objects sorted by key with the last duplicate kept; "
                                    "C15_text_roundtrip_any_whitespace (any formatter whose separators are whitespace); C15_canonical_value_is_fixed (canon is the identity on "
                                    "a Value; to_json L is canonical; canon (ser_layout L) = to_json L). The reader model covers whitespace, literals, the i64/u64/float "
                                    "split of numbers incl. the NumberOutOfRange errors of f64_from_parts, all escapes, surrogate pairs and lone surrogates, raw control "
                                    "characters, UTF-8 validation, BTreeMap insertion, trailing commas and characters, and the recursion limit (127 levels accepted, 128 "
                                    "rejected — checked against serde_json 1.0.128). On every run (class TEXT): the real to_string_pretty bytes of every input value and of "
                                    "every saved layout file are compared byte for byte with print_pretty / save_text; ~14 k generated texts (valid and malformed) go through "
                                    "the real from_str / from_slice / from_reader and through parse_text; load_text is compared with the real load_layout_from_file on every "
                                    "saved file, on every input written as a file and on re-spaced / mutated layout files")),
}
