"""loader properties C13, C14, C15 (engine: loader)"""

LOADER_TRUST = [
    "hand-written models coq/theories/Parser.v (layout_parsing_formatting.rs), Convert.v (fancy_layout_interpreting.rs), Serde.v (derive(Serialize) of keys::Layout), tied to the code by the loader engine: the real parse_layout_from_json+convert, serde_json::to_value and the reload are compared with the extracted model on every generated case (Ok payload / Err / Panic)",
    "extracted checkers coq/theories/LoaderCheck.v applied to the real outputs (C13.expand uses the specification ConvertSpec.expand and the hand-written keyboard SpecTables.v)",
    "gen/KeyTable.v, CharTable.v, Rows.v, Modifiers.v regenerated from /repo on every run",
    "serde_json text <-> Value and serde's derive are not modelled (the harness checks to_string_pretty+from_str = to_value on every accepted layout)",
    "str::to_uppercase/to_lowercase are modelled exactly only where the image meets ASCII (17+2 scalars enumerated from rustc 1.95's tables); validated by substituting every cased scalar (thorough: every scalar) into row and repeat names",
]
LOADER_RULE = ("cases: grammar-based valid shorthand layouts (0-3 alias/plain modifiers, 1-3 definitions per alias, single/row/repeat-only, every row, "
               "letters over the 95 printable ASCII characters, every repeat form, absorbing, both spellings), the builtin layouts, README and "
               "working/syntax-examples JSON blocks, hand-written weak-spot families, 2 structure-aware mutants per valid layout + mutants of the corpus, "
               "arbitrary JSON, random basic layouts over all key codes serialised with serde (and every key code once in every position), "
               "every key name/serde name + near misses, single-scalar substitutions in row/repeat names; every accepted layout is saved with serde, "
               "reloaded, installed with Mapper::for_layout and driven with 40 random events under catch_unwind. evaluations = cases + substitutions; "
               "distinct_nontrivial = distinct input texts whose top level is an object holding a non-empty array (counted by the checker)")


def loader_prop(classes, clauses, **kw):
    d = {"engines": ["loader"], "classes": classes, "clauses": clauses, "trusted": LOADER_TRUST, "rule": LOADER_RULE,
         "assumptions": ["the generators bound the correspondence, not the theorems; bytes -> serde_json::Value is trusted"]}
    d.update(kw)
    return d


PROPS = {
    "C13": loader_prop(["LOAD"], ["C13"],
                       explanation="C13: convert is compared with the declarative specification ConvertSpec.expand (hand-written US-QWERTY keyboard) on every generated layout (clause C13.expand on the real output); table theorems by vm_compute on the regenerated tables; see coq/Properties/C13.v for what is proved about all layouts"),
    "C14": loader_prop(["LOAD"], ["C14"],
                       explanation="C14: every modelled panic site of the loader is proved unreachable and accepted layouts satisfy the mapper's constructor (coq/Properties/C14.v); the real loader, for_layout and step run under catch_unwind on every case (clauses C14.panic, C14.accepted_wf); C14_mapper_total lives in the mapper development"),
    "C15": loader_prop(["LOAD", "SERDE"], ["C15"],
                       explanation="C15: round trip to_json -> parse -> convert proved for every well-formed basic layout, key names by vm_compute over the regenerated table (coq/Properties/C15.v); the real serde output and the real reload are compared on every accepted layout and on random basic layouts over all key codes (clause C15.roundtrip)"),
}
