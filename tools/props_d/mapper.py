"""mapper properties (engine: mapper)"""
from props_common import mapper_prop

PROPS = {
    "C01": mapper_prop(["HELD"], ["C01"],
                       explanation="C01_no_stuck_keys is proved by the inductive invariant Inv (MapperInv.v) for every accepted layout and every history incl. ill-formed events and release-all; correspondence observes the held set after every step (class HELD); the extracted checker K_C01 runs on the real outputs"),
    "C02": mapper_prop(["HELD"], ["C02"],
                       explanation="four theorems (justified, silenced key, release never presses, trigger consumed) from Inv; 'in effect' is the specification state's active list; extracted checkers K_C02_* run on the real outputs"),
    "C03": mapper_prop(["EVENTS"], ["C03"],
                       explanation="C03_last_listed_satisfied_mapping_fires: for every non-absorbing accepted layout and every history the fired mapping is the declarative last-listed satisfied one over the PHYSICALLY held keys (inp = phys proved), with the stated effects; extracted checkers K_C03_fire / K_C03_pass run on the real outputs"),
    "C07": mapper_prop(["EVENTS"], ["C07"],
                       explanation="C07_no_repeatable_key_held from Inv + fire_facts for every accepted layout and history; extracted checkers K_C07_held / K_C07_pressed run on the real outputs"),
    "C09": mapper_prop(["REPEAT"], ["C09"],
                       explanation="C09_repeat_exact is proved for every layout, state and event; the REPEAT observation of the real mapper is compared with the model on every explored transition"),
    "C19": mapper_prop(["EVENTS"], ["C19"],
                       explanation="C19_no_redundant and C19_bookkeeping_matches_device are proved from Inv + per-function trace lemmas (tr_ok) for every accepted layout and every history incl. release-all batches; the extracted checker K_C19 runs on the real outputs"),
}
