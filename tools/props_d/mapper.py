"""mapper properties (engine: mapper)"""
from props_common import mapper_prop

PROPS = {
    "C01": mapper_prop(["HELD"], ["C01"],
                       explanation="C01_no_stuck_keys is proved by the inductive invariant Inv (MapperInv.v) for every accepted layout and every history incl. ill-formed events and release-all; correspondence observes the held set after every step (class HELD); the extracted checker K_C01 runs on the real outputs"),
    "C02": mapper_prop(["HELD"], ["C02"],
                       explanation="four theorems (justified, silenced key, release never presses, trigger consumed) from Inv; 'in effect' is the specification state's active list; extracted checkers K_C02_* run on the real outputs"),
    "C03": mapper_prop(["EVENTS"], ["C03"],
                       explanation="C03_last_listed_satisfied_mapping_fires: for every non-absorbing accepted layout and every history the fired mapping is the declarative last-listed satisfied one over the PHYSICALLY held keys (inp = phys proved), with the stated effects; extracted checkers K_C03_fire / K_C03_pass run on the real outputs"),
    "C04": mapper_prop(["EVENTS"], ["C04"],
                       explanation="C04_no_stale_modifiers: for every non-absorbing accepted layout and every history, when the last-listed satisfied mapping is key-producing the step presses its final output key, and in the held set at the instant of that press every output key of the mapping is down and every other modifier that is down is physically held outside the trigger or output by a held modifier-remapping (proved from Inv: release_action_mappings drops exactly the modifiers of earlier key-producing mappings); extracted checkers K_C04_missing / K_C04_stale run on the real outputs; reading 9.1: key-producing mappings"),
    "C05": mapper_prop(["EVENTS"], ["C05"],
                       explanation="six theorems for every accepted layout and every history: events of a foreign key (pressed only by its own acted press, released only by its own release, release-all or - non-modifier - a no-repeat firing; pressed exactly once as the last event; up after its release), empty layout = echo of the input, release scope (only the key itself and outputs of mappings triggered by it, never an output of a mapping remaining in effect), in-effect outputs stay (non-absorbing layouts); extracted checkers K_C05_foreign/empty/scope/stay run on the real outputs"),
    "C06": mapper_prop(["FULL"], ["C06"],
                       explanation="C06_fresh_after_rest / C06_fresh_after_release_all / C06_no_memory: a bisimulation (MapperRefire.v: the absorbed-key list matters only through absorbed keys still held on the input, the absorbing trigger only while there is one, the repeat trigger never) proves that after every history ending at rest, and after every release-all, the responses (events and repeat instruction) to EVERY continuation equal a fresh mapper's; on the real code every rest node of the explored transition graph is compared with the initial node by a product search over all continuations (clause C06), and the FULL observation ties the model to the code"),
    "C07": mapper_prop(["EVENTS"], ["C07"],
                       explanation="C07_no_repeatable_key_held from Inv + fire_facts for every accepted layout and history; extracted checkers K_C07_held / K_C07_pressed run on the real outputs"),
    "C08": mapper_prop(["EVENTS"], ["C08"],
                       explanation="C08a/b/c/d and C08_checker_silent_on_model are proved for every accepted layout in the class K1 (absorbing mappings are key-producing) and K2 (a mapping not ending in a non-modifier outputs only modifiers), every history and every later press, from the invariant J (MapperAbsorb.v) between a history ghost (who absorbed what, on which trigger, not released or pressed since) and the mapper state; outside the class the statement is refuted (C08a_refuted_outside_K1, C08b_refuted_outside_K2: recorded findings, KNOWN_FINDINGS.txt). The extracted checker c08_check runs on the real outputs along every explored history (the ghost is part of the product node); hits in layouts outside the class are reported as KNOWN-FINDING, inside as VIOLATION",
                       assumptions=["the layout family and the bound on simultaneously held keys limit the correspondence, not the theorems",
                                    "which mapping the real code fired is not observable: clauses C08.fires / C08.refire are decided from the specification's choice on edges where the real events equal the model's (class EVENTS ties them), clause C08.held from the real events alone"]),
    "C09": mapper_prop(["REPEAT"], ["C09"],
                       explanation="C09_repeat_exact is proved for every layout, state and event; the REPEAT observation of the real mapper is compared with the model on every explored transition"),
    "C19": mapper_prop(["EVENTS"], ["C19"],
                       explanation="C19_no_redundant and C19_bookkeeping_matches_device are proved from Inv + per-function trace lemmas (tr_ok) for every accepted layout and every history incl. release-all batches; the extracted checker K_C19 runs on the real outputs"),
}
