"""mapper properties (engine: mapper)"""
from props_common import mapper_prop

PROPS = {
    "C09": mapper_prop(["REPEAT"], ["C09"],
                       explanation="C09_repeat_exact is proved for every layout, state and event; the REPEAT observation of the real mapper is compared with the model on every explored transition"),
}
