"""props_common.py — per-property configuration of ./check: which correspondence
engines a property depends on, through which observation classes, which
checker clauses decide it on the real code, and what it trusts."""

# axioms of Coq's standard library that a theorem may depend on (none needed so far)
ALLOWED_AXIOMS = []

MAPPER_TRUST = [
    "hand-written model coq/theories/Mapper.v of src/key_transforms.rs, tied to the code by the mapper engine: complete reachable transition graph of the real Mapper vs the extracted model for every layout of the generated family (bounded number of keys held at once), seeded random walks on the five builtin layouts",
    "property checkers coq/theories/Monitors.v (extracted, applied to the real code's outputs)",
    "observation classes of the comparison: HELD = the set of keys held after the step and the set of keys pressed by it; REPEAT = the repeat request; EVENTS = the event list of the step modulo the order the mapper properties leave open - a permutation that keeps the order of the events of each key and the position of every press of a non-modifier key relative to all other events is the same observation (canonical form: the segments between presses of non-modifier keys, stable-sorted by key code); FULL = EVENTS + REPEAT. An implementation that differs from Mapper.v only in such an order is therefore still covered by the theorems as far as the properties can tell them apart (C04/C07/C08 speak about what is down when a non-modifier key goes down, C03 about which presses occur, C19 about each key's own events); the extracted checkers always judge the REAL event list as it is",
    "gen/Modifiers.v regenerated from is_action_key on every run",
]
MAPPER_RULE = ("layouts: corpus + sample of all single-mapping layouts over {A,B,LEFTSHIFT,CAPSLOCK} + seeded random 2-4 mapping layouts "
               "over {A,B,C,LEFTSHIFT,LEFTCTRL,CAPSLOCK} (all repeat modes, absorbing subsets) explored exhaustively as (mapper state, physically "
               "held set) graphs over layout keys + 2 foreign keys incl. ill-formed events and release-all, plus random walks on the builtins; "
               "evaluations = transitions compared; distinct_nontrivial = distinct (impl state, model state, held sets) product nodes other than the initial ones")


def mapper_prop(classes, clauses, **kw):
    d = {"engines": ["mapper"], "classes": classes, "clauses": clauses, "trusted": MAPPER_TRUST, "rule": MAPPER_RULE,
         "assumptions": ["the layout family and the bound on simultaneously held keys limit the correspondence, not the theorems"]}
    d.update(kw)
    return d


