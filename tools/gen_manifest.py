#!/usr/bin/env python3
"""gen_manifest.py — write MANIFEST.json from tools/props.py (claimed checks)
and tools/not_applicable.json (everything else, with reasons)."""
import json, os, sys, subprocess
HERE = os.path.dirname(os.path.dirname(os.path.abspath(__file__)))
sys.path.insert(0, os.path.join(HERE, "tools"))
import props
all_ids = [json.loads(l)["id"] for l in open(os.path.join(HERE, "properties.jsonl"))]
na_reasons = json.load(open(os.path.join(HERE, "tools", "not_applicable.json")))
# only properties listed in tools/ready.json are claimed (engines under construction are not)
READY = set(json.load(open(os.path.join(HERE, "tools", "ready.json"))))
for _p in list(props.PROPS):
    if _p not in READY:
        del props.PROPS[_p]
hooks = subprocess.run("git -C /repo log --format=%H --grep='^verif hook' ", shell=True, stdout=subprocess.PIPE).stdout.decode().split()
checks = []
for pid in all_ids:
    if pid not in props.PROPS:
        continue
    P = props.PROPS[pid]
    checks.append({
        "property_id": pid,
        "quick_cmd": "./check %s --tier quick" % pid,
        "thorough_cmd": "./check %s --tier thorough" % pid,
        "evidence_file": "/verif/evidence/%s.json" % pid,
        "replay_cmd_template": "./check %s --replay {path}" % pid,
        "engine": "+".join(["coq-proofs"] + P["engines"]),
        "level_claimed": {"category": "proof", "text": P.get("level_text", P.get("explanation", "")), "design_ref": P.get("design_ref", "DESIGN.md section 7, " + pid)},
        "level_note": P.get("level_note", "Trusted: Coq 8.16.1 kernel; the hand-written Gallina model tied to /repo by the correspondence engine(s) " + ", ".join(P["engines"]) + " on every run; translators; extraction (ExtrOcamlBasic, ExtrOcamlString); the Rust harness. Axioms: none (Print Assumptions: Closed under the global context)."),
        "technique": P.get("technique", "machine-checked Coq proof over an executable model + model/implementation correspondence check"),
    })
na = [{"property_id": pid, "reason": na_reasons.get(pid, "check under construction in this round; not claimed yet")} for pid in all_ids if pid not in props.PROPS]
engines = [
    {"name": "coq-proofs", "path": "coq/", "serves_properties": sorted(props.PROPS), "kind_free_text": "Coq 8.16.1 development: executable Gallina models, lemmas, Properties/Cxx.v statements with Print Assumptions; full .vo build per property"},
    {"name": "translate", "path": "tools/translate.py", "serves_properties": [p for p in sorted(props.PROPS)], "kind_free_text": "regenerates the data part of the model (key codes, modifier sets, char table, rows) from /repo on every run"},
]
for e in sorted({e for P in props.PROPS.values() for e in P["engines"]}):
    engines.append({"name": e, "path": "tools/engines/%s.py" % e, "serves_properties": sorted(p for p, P in props.PROPS.items() if e in P["engines"]),
                    "kind_free_text": props.ENGINE_TEXT.get(e, "correspondence: real code (harness/, hooks on) vs extracted Coq model (ocaml/%s_check.ml), extracted property checkers applied to the real outputs" % e)})
m = {
    "version": 1,
    "setup_cmd": "python3 tools/setup.py",
    "hooks": {
        "guard": "ellbur_totalmapper_verif",
        "enable": "RUSTFLAGS=\"--cfg ellbur_totalmapper_verif\"; the harness crate /verif/harness includes /repo/src/*.rs by #[path] and is built with that flag (CARGO_TARGET_DIR=/verif/build/cargo)",
        "baseline_off_cmd": "cd /repo && cargo test --workspace --no-fail-fast --offline",
        "source_commits": hooks,
        "add_only": True,
    },
    "engines": engines,
    "checks": checks,
    "notes": "Single entry point ./check (tools/check.py). Every check re-runs the translators, rebuilds the property's Coq target, rebuilds the harness from /repo's working tree and runs the correspondence; engine results are cached under build/cache keyed by the hash of /repo/src + /verif sources + seed + tier. Known findings: KNOWN_FINDINGS.txt.",
    "not_applicable": na,
}
open(os.path.join(HERE, "MANIFEST.json"), "w").write(json.dumps(m, indent=1) + "\n")
print("manifest: %d checks, %d not claimed" % (len(checks), len(na)))
