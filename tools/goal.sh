#!/bin/sh
# usage: tools/goal.sh theories/X.v LINE   — show the proof state after LINE lines
f=$1; n=$2
d=/verif/build/goal; mkdir -p $d
b=$(basename $f .v)
head -n $n /verif/coq/$f > $d/G_$b.v
echo "Show. " >> $d/G_$b.v
cd /verif/coq && coqc -Q theories TM -Q gen TMGen -Q Properties TMProps $d/G_$b.v 2>&1 | head -${3:-60}
